import itertools, sys
from functools import lru_cache
# shape: list of groups; group = (u, tuple of cond-entry descriptors); descriptor = tuple of ops per condition (op in 0..OPS-1)
OPS=int(sys.argv[2]) if len(sys.argv)>2 else 2
def group_structs(maxu, maxe, maxc):
    out=[]
    conds=[]
    for c in range(1,maxc+1):
        conds += list(itertools.product(range(OPS), repeat=c))
    for u in range(maxu+1):
        for e in range(maxe+1):
            for ents in itertools.product(conds, repeat=e):
                out.append((u, ents))
    return out
def weight(g):
    u,ents=g
    return 1+u+len(ents)+sum(len(x) for x in ents)
def partitions(n):
    # restricted growth strings
    def rec(i, cur, mx):
        if i==n: yield tuple(cur); return
        for v in range(mx+2):
            cur.append(v); yield from rec(i+1, cur, max(mx,v)); cur.pop()
    yield from rec(0, [], -1)
def valid_naming(groups, part):
    # entries ordered: per group: u unconditional then cond entries
    idx=0
    for (u,ents) in groups:
        un=part[idx:idx+u]; cn=part[idx+u:idx+u+len(ents)]
        idx+=u+len(ents)
        if len(set(un))!=len(un): return False       # duplicate unconditional -> error shape
        if set(un)&set(cn): return False              # cond+uncond -> error shape
    return True
def count(W, maxg=3, maxu=2, maxe=2, maxc=2, maxnames=4):
    gs=group_structs(maxu,maxe,maxc)
    total=0; structs=0
    for G in range(1,maxg+1):
        for groups in itertools.product(gs, repeat=G):
            w=sum(weight(g) for g in groups)
            if w>W: continue
            n=sum(g[0]+len(g[1]) for g in groups)
            structs+=1
            for part in partitions(n):
                if max(part, default=-1)+1>maxnames: continue
                if valid_naming(groups, part): total+=1
    return structs,total
for W in range(4,int(sys.argv[1])+1):
    print(W, count(W))
