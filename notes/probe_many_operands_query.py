import json,os
N=int(os.environ.get('NLISTS','70'))
raw=json.load(open('/tmp/exp/prog2.json'))['raw']
n=len(raw)
def bv(x): return f'#x{x&0xffffffff:08x}'
L=[]
for i in range(16): L.append(f'(declare-const w{i} (_ BitVec 32))')
for i in range(N):
    L.append(f'(declare-const v{i} (_ BitVec 64))'); L.append(f'(declare-const u{i} (_ BitVec 64))')
def K(k):
    # map tagged constants back to symbolic operand halves
    hi=k>>16
    if (k>>16)==0x1111: return f'((_ extract 63 32) v{k&0xffff})'
    if (k>>16)==0x2222: return f'((_ extract 63 32) u{k&0xffff})'
    if (k>>8)==0xAA: return f'((_ extract 31 0) v{k&0xff})'
    if (k>>8)==0xBB: return f'((_ extract 31 0) u{k&0xff})'
    return bv(k)
reach=[[] for _ in range(n+2)]; reach[0]=[('true',bv(0))]; rets=[]; defs=[]
for pc,ins in enumerate(raw):
    inc=reach[pc]
    if not inc: continue
    r=f'r{pc}'; a=f'a{pc}'
    defs.append(f'(define-fun {r} () Bool (or {" ".join(c for c,_ in inc)}))' if len(inc)>1 else f'(define-fun {r} () Bool {inc[0][0]})')
    t=inc[-1][1]
    for c,av in reversed(inc[:-1]): t=f'(ite {c} {av} {t})'
    defs.append(f'(define-fun {a} () (_ BitVec 32) {t})')
    op=ins['Op']; k=ins['K']; jt=ins['Jt']; jf=ins['Jf']
    if op==0x20: reach[pc+1].append((r,f'w{k//4}'))
    elif op&7==5:
        jop=op&0xf0
        if jop==0: reach[pc+1+k].append((r,a))
        else:
            kk=K(k)
            cond={0x10:f'(= {a} {kk})',0x20:f'(bvugt {a} {kk})',0x30:f'(bvuge {a} {kk})',0x40:f'(not (= (bvand {a} {kk}) {bv(0)}))'}[jop]
            defs.append(f'(define-fun c{pc} () Bool {cond})')
            reach[pc+1+jt].append((f'(and {r} c{pc})',a)); reach[pc+1+jf].append((f'(and {r} (not c{pc}))',a))
    elif op==6: rets.append((r,bv(k)))
L+=defs
t=bv(0xdeadbeef)
for c,v in rets: t=f'(ite {c} {v} {t})'
L.append(f'(define-fun impl () (_ BitVec 32) {t})')
a0='(concat w5 w4)'; a1='(concat w7 w6)'
wr='(or '+' '.join(f'(and (= {a0} v{i}) (or (bvugt w7 ((_ extract 63 32) u{i})) (and (= w7 ((_ extract 63 32) u{i})) (bvugt w6 ((_ extract 31 0) u{i})))))' for i in range(N))+')'
m=f'(or (= w0 {bv(2)}) (= w0 {bv(3)}) (and (= w0 {bv(1)}) {wr}) (and (= w0 {bv(0)}) (= {a0} #x0000000000000005)))'
ref=f'(ite (not (= w1 {bv(0xc000003e)})) {bv(0x7fff0000)} (ite (bvuge w0 {bv(0x40000000)}) {bv(0x50026)} (ite {m} {bv(0)} {bv(0x7fff0000)})))'
L.append(f'(assert (not (= impl {ref})))'); L.append('(check-sat)')
open('q2.smt2','w').write('\n'.join(L)+'\n')
print(n,'instructions')
