import itertools,sys
def count(K, Dshort, Dlong):
    D=Dshort+Dlong
    total=0
    for r0 in (0,1):
        for runs in itertools.product(D, repeat=K):
            if not any(r in Dlong for r in runs): continue
            # positions
            pos=r0; jpos=[]; rstart=[]
            for k in range(K):
                jpos.append(pos); pos+=1
                rstart.append(pos if runs[k]>0 else None); pos+=runs[k]
            ret1=pos; ret2=pos+1
            combos=1
            shared_possible=False
            alltargets=[]
            per=[]
            for k in range(K):
                nxt=jpos[k]+1
                cands={nxt,ret1,ret2}
                for m in range(k+1,K):
                    cands.add(jpos[m])
                    if rstart[m] is not None: cands.add(rstart[m])
                c=len(cands)
                per.append(c*c-1)
            n=1
            for x in per: n*=x
            total+=n*2   # label mode: per-branch labels vs shared labels (upper bound)
    return total
Ds=[0,1,2,3]
print("quick Dlong", [ (K,count(K,Ds,[254,255,256])) for K in (1,2,3)])
print("thorough Dlong", [ (K,count(K,Ds,list(range(250,259)))) for K in (1,2)])
