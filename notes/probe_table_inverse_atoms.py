import json,sys
T=json.load(open('/tmp/exp/tables.json'))[sys.argv[1]]
pairs=sorted((int(k.split(':')[0]),k.split(':')[1]) for k in T)
# SyscallNumbers: number->name (keys unique). SyscallNames = invert: name->number; with duplicates model "asc order, last write wins"
codes={}
def code(k):
    if k not in codes: codes[k]=len(codes)+1
    return f'#x{codes[k]:08x}'
names={}
for n,s in pairs: names[s]=n
L=['(declare-const s (_ BitVec 32))','(declare-const n (_ BitVec 64))']
def bv(x): return f'#x{x&0xffffffffffffffff:016x}'
# lookup SyscallNames[s] -> (found, val)
f1='(or '+' '.join(f'(= s {code(k)})' for k in names)+')'
v1=bv(0)
for k,v in names.items(): v1=f'(ite (= s {code(k)}) {bv(v)} {v1})'
f2='(or '+' '.join(f'(= n {bv(k)})' for k,_ in pairs)+')'
v2='#xffffffff'
for k,v in pairs: v2=f'(ite (= n {bv(k)}) {code(v)} {v2})'
L.append(f'(define-fun f1 () Bool {f1})'); L.append(f'(define-fun v1 () (_ BitVec 64) {v1})')
L.append(f'(define-fun f2 () Bool {f2})'); L.append(f'(define-fun v2 () (_ BitVec 32) {v2})')
L.append('(assert (not (= (and f1 (= v1 n)) (and f2 (= v2 s)))))')
L.append('(check-sat)'); L.append('(get-value (s n))')
open('q6.smt2','w').write('\n'.join(L)+'\n'); print(len(pairs),len(names))
