import json,sys
d=json.load(open('/tmp/exp/prog.json'))
raw=d['raw']; nums=d['nums']
n=len(raw)
L=[]
L.append('(set-logic QF_BV)')
for i in range(16): L.append(f'(declare-const w{i} (_ BitVec 32))')
# per pc: reach_i Bool, A_i BV32
def bv(x): return f'#x{x&0xffffffff:08x}'
reach=[[] for _ in range(n+1)]  # list of (cond, Aterm)
reach[0]=[('true', bv(0))]
rets=[]
defs=[]
for pc,ins in enumerate(raw):
    inc=reach[pc]
    if not inc:
        continue
    r=f'r{pc}'; a=f'a{pc}'
    defs.append(f'(define-fun {r} () Bool (or {" ".join(c for c,_ in inc)}))' if len(inc)>1 else f'(define-fun {r} () Bool {inc[0][0]})')
    t=inc[-1][1]
    for c,av in reversed(inc[:-1]):
        t=f'(ite {c} {av} {t})'
    defs.append(f'(define-fun {a} () (_ BitVec 32) {t})')
    op=ins['Op']; k=ins['K']; jt=ins['Jt']; jf=ins['Jf']
    cls=op&7
    if op==0x20: # ld abs w
        assert k%4==0 and k<64
        reach[pc+1].append((r, f'w{k//4}'))
    elif cls==5: # jmp
        jop=op&0xf0
        if jop==0: # ja
            reach[pc+1+k].append((r,a))
        else:
            cond={0x10:f'(= {a} {bv(k)})',0x20:f'(bvugt {a} {bv(k)})',0x30:f'(bvuge {a} {bv(k)})',0x40:f'(not (= (bvand {a} {bv(k)}) {bv(0)}))'}[jop]
            c=f'c{pc}'
            defs.append(f'(define-fun {c} () Bool {cond})')
            reach[pc+1+jt].append((f'(and {r} {c})',a))
            reach[pc+1+jf].append((f'(and {r} (not {c}))',a))
    elif op==6: # ret k
        rets.append((r,bv(k)))
    else:
        raise Exception(op)
L+=defs
t=bv(0xdeadbeef)
for c,v in rets: t=f'(ite {c} {v} {t})'
L.append(f'(define-fun impl () (_ BitVec 32) {t})')
L.append(f'(define-fun anyret () Bool (or {" ".join(c for c,_ in rets)}))')
# reference
listed='(or '+' '.join(f'(= w0 {bv(x)})' for x in nums if x!=60)+')'  # exit omitted? names include all
listed='(or '+' '.join(f'(= w0 {bv(x)})' for x in nums)+')'
ref=f'(ite (not (= w1 {bv(0xc000003e)})) {bv(0x80000000)} (ite (bvuge w0 {bv(0x40000000)}) {bv(0x50000|38)} (ite {listed} {bv(0x7fff0000)} {bv(0x80000000)})))'
L.append(f'(define-fun ref () (_ BitVec 32) {ref})')
L.append('(assert (or (not anyret) (not (= impl ref))))')
L.append('(check-sat)')
open('q.smt2','w').write('\n'.join(L)+'\n')
