import json,sys
SPLIT = len(sys.argv)>1 and sys.argv[1]=='split'
raw=json.load(open('/tmp/exp/prog3.json'))['raw']
n=len(raw)
def bv(x): return f'#x{x&0xffffffff:08x}'
L=['(set-logic QF_BV)']
for i in range(16): L.append(f'(declare-const w{i} (_ BitVec 32))')
for i in range(6):
    L.append(f'(declare-const v{i} (_ BitVec 64))'); L.append(f'(declare-const p{i} (_ BitVec 32))'); L.append(f'(assert (bvule p{i} {bv(5)}))')
def mux(off):  # 16-way mux on a symbolic byte offset
    t=bv(0)
    for i in range(15,-1,-1): t=f'(ite (= {off} {bv(4*i)}) w{i} {t})'
    return t
def K(k):
    if (k>>16)==0x1111: return f'((_ extract 63 32) v{k&0xffff})'
    if (k>>8)==0xAA: return f'((_ extract 31 0) v{k&0xff})'
    return bv(k)
reach=[[] for _ in range(n+2)]; reach[0]=[('true',bv(0))]; rets=[]; defs=[]
for pc,ins in enumerate(raw):
    inc=reach[pc]
    if not inc: continue
    r=f'r{pc}'; a=f'a{pc}'
    defs.append(f'(define-fun {r} () Bool (or {" ".join(c for c,_ in inc)}))' if len(inc)>1 else f'(define-fun {r} () Bool {inc[0][0]})')
    t=inc[-1][1]
    for c,av in reversed(inc[:-1]): t=f'(ite {c} {av} {t})'
    defs.append(f'(define-fun {a} () (_ BitVec 32) {t})')
    op=ins['Op']; k=ins['K']; jt=ins['Jt']; jf=ins['Jf']
    if op==0x20:
        if k>=16:
            idx=(k-16)//8; hi=(k-16)%8==4
            off=f'(bvadd {bv(16+(4 if hi else 0))} (bvmul {bv(8)} p{idx}))'
            reach[pc+1].append((r,mux(off)))
        else: reach[pc+1].append((r,f'w{k//4}'))
    elif op&7==5:
        jop=op&0xf0
        if jop==0: reach[pc+1+k].append((r,a))
        else:
            kk=K(k)
            cond={0x10:f'(= {a} {kk})',0x20:f'(bvugt {a} {kk})',0x30:f'(bvuge {a} {kk})',0x40:f'(not (= (bvand {a} {kk}) {bv(0)}))'}[jop]
            defs.append(f'(define-fun c{pc} () Bool {cond})')
            reach[pc+1+jt].append((f'(and {r} c{pc})',a)); reach[pc+1+jf].append((f'(and {r} (not c{pc}))',a))
    elif op==6: rets.append((r,bv(k)))
L+=defs
t=bv(0xdeadbeef)
for c,v in rets: t=f'(ite {c} {v} {t})'
L.append(f'(define-fun impl () (_ BitVec 32) {t})')
def arg(i):
    t='(concat w15 w14)'
    for j in range(4,-1,-1): t=f'(ite (= p{i} {bv(j)}) (concat w{5+2*j} w{4+2*j}) {t})'
    return t
for i in range(6): L.append(f'(define-fun A{i} () (_ BitVec 64) {arg(i)})')
def hi(x): return f'((_ extract 63 32) {x})'
def lo(x): return f'((_ extract 31 0) {x})'
def rel(op,a,v):
    if op=='eq': return f'(= {a} {v})'
    if op=='ne': return f'(not (= {a} {v}))'
    if op=='bs': return f'(not (= (bvand {a} {v}) #x0000000000000000))'
    f={'gt':'bvugt','ge':'bvuge','le':'bvule'}[op]
    if not SPLIT: return f'({f} {a} {v})'
    strict={'gt':'bvugt','ge':'bvugt','le':'bvult'}[op]
    return f'(or ({strict} {hi(a)} {hi(v)}) (and (= {hi(a)} {hi(v)}) ({f} {lo(a)} {lo(v)})))'
ops=['eq','gt','le','bs','ne','ge']
lists=[f'(and {rel(ops[2*i],f"A{2*i}",f"v{2*i}")} {rel(ops[2*i+1],f"A{2*i+1}",f"v{2*i+1}")})' for i in range(3)]
m=f'(or (= w0 {bv(2)}) (and (= w0 {bv(1)}) (or {" ".join(lists)})))'
ref=f'(ite (not (= w1 {bv(0xc000003e)})) {bv(0x7fff0000)} (ite (bvuge w0 {bv(0x40000000)}) {bv(0x50026)} (ite {m} {bv(0)} {bv(0x7fff0000)})))'
L.append(f'(assert (not (= impl {ref})))'); L.append('(check-sat)'); L.append('(get-value (w0 w4 w5 p0 v0))')
open('q5.smt2','w').write('\n'.join(L)+'\n')
print(n,'instructions')
