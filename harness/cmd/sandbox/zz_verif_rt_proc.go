package main

// How a child process ended (C17). Inside the engine vProcState is
// intercepted: the state carries a symbolic exit code that
// (*os.ProcessState).ExitCode / Success / Exited report. Natively a real
// child is run so that the state is a real one: code -1 is a child killed by
// a signal, 1..127 a child that exits with that status.

import (
	"os"
	"os/exec"
	"strconv"
)

func vProcState(code int) *os.ProcessState {
	script := "exit " + strconv.Itoa(code)
	if code < 0 {
		script = "kill -KILL $$"
	}
	c := exec.Command("/bin/sh", "-c", script)
	c.Run()
	return c.ProcessState
}

// vAbsBytes: a byte slice of n copies of def. Inside the engine it is intercepted: the slice has a
// SYMBOLIC length (an abstract slice), so code that compares len(data) with a limit forks on it.
func vAbsBytes(n int, def byte) []byte {
	s := make([]byte, n)
	for i := range s {
		s[i] = def
	}
	return s
}
