package main

import (
	"context"
	"errors"
	"flag"
	"fmt"
	"io"
	"os"
	"os/exec"
	"strconv"
	"syscall"
	"time"

	ucfg "github.com/elastic/go-ucfg"

	seccomp "github.com/elastic/go-seccomp-bpf"
)

func init() {
	vRegister("H_SandboxMain", H_SandboxMain)
}

// ---------------------------------------------------------------------------
// Environment stubs. The engine redirects the callees to these functions by
// name; the native replay compiles main.go with the selectors rewritten.

var (
	vArgs       []string
	vEvents     []string
	vExitCode   int
	vLayer      int
	vParseTried bool
	vFlagNNP    bool
	vParseErr   bool
	vLoadErr    bool
	vLoaded     seccomp.Filter
	vLoadCalls  int
	vExecCalls  int
	vExecName   string
	vExecArgs   []string
	vClock        int
	vParseAt    int
	vLoadAt     int
	vExecAt     int
	vBadSyscall bool
)

func vTick() int { vClock++; return vClock }

func vstubStringVar(p *string, name, value, usage string) { *p = value }
func vstubBoolVar(p *bool, name string, value bool, usage string) {
	*p = vBool("flag." + name)
	if name == "no-new-privs" {
		vFlagNNP = *p
	}
}
func vstubFlagParse()         {}
func vstubFlagArgs() []string { return vArgs }

func vMakePolicy() *seccomp.Policy {
	name := "read"
	if vBadSyscall {
		name = "no_such_syscall"
	}
	return &seccomp.Policy{DefaultAction: seccomp.Action(vU32("pol.def")), Syscalls: []seccomp.SyscallGroup{{Names: []string{name, "write"}, Action: seccomp.Action(vU32("pol.act"))}}}
}

var vUnpackPolicy *seccomp.Policy

// The harness binds to nothing of the command but main(): parsing is observed at the configuration
// library (a parse succeeded when NewConfigWithFile and Unpack both did), the no-new-privs option at
// the flag stubs.
func vstubNewConfigWithFile(name string, opts ...ucfg.Option) (*ucfg.Config, error) {
	vParseTried = true
	if vChoice("file.missing_or_malformed", 2) == 1 {
		vParseErr = true
		return nil, errors.New("open/parse failed")
	}
	return &ucfg.Config{}, nil
}

// Other ways to get at the policy file: os.ReadFile, or os.Open + io.ReadAll, possibly behind an
// io.LimitReader, then yaml.NewConfig on the bytes. The file has an arbitrary length; what a limited
// read hands on is the whole file only if the file fits. A configuration made from less than the whole
// file denotes ANOTHER policy (vShort): running the target under it fails C15.whole_file.
var (
	vFileLen int
	vShort   bool
	vLimit   int
	vLimited bool
)

func vFileLength() int {
	if vFileLen < 0 {
		vFileLen = vInt("file.len")
		vAssume(vFileLen >= 0 && vFileLen < 1<<22) // bound: policy files below 4 MiB (the native replay allocates them)
	}
	return vFileLen
}

func vstubOpen(name string) (*os.File, error) {
	vParseTried = true
	if vChoice("file.missing", 2) == 1 {
		vParseErr = true
		return nil, errors.New("open failed")
	}
	return &os.File{}, nil
}
func vstubFileClose(f *os.File) error { return nil }
func vstubReadFile(name string) ([]byte, error) {
	vParseTried = true
	if vChoice("file.missing", 2) == 1 {
		vParseErr = true
		return nil, errors.New("read failed")
	}
	return vAbsBytes(vFileLength(), 'p'), nil
}
func vstubLimitReader(r io.Reader, n int64) io.Reader {
	vLimited, vLimit = true, int(n)
	return r
}
func vstubReadAll(r io.Reader) ([]byte, error) {
	if vChoice("file.read_fails", 2) == 1 {
		vParseErr = true
		return nil, errors.New("read failed")
	}
	n := vFileLength()
	if vLimited && n > vLimit {
		vShort = true // the tail of the file was not read
		n = vLimit
	}
	// the data has the length that was read, so that code which compares it with its limit can notice
	return vAbsBytes(n, 'p'), nil
}
func vstubMetaData(m ucfg.Meta) ucfg.Option { return nil }
func vstubPathSep(sep string) ucfg.Option  { return nil }
func vstubNewConfig(in []byte, opts ...ucfg.Option) (*ucfg.Config, error) {
	vParseTried = true
	if vChoice("file.malformed", 2) == 1 {
		vParseErr = true
		return nil, errors.New("parse failed")
	}
	return &ucfg.Config{}, nil
}

func vstubUnpack(c *ucfg.Config, to interface{}, opts ...ucfg.Option) error {
	if vChoice("unpack.fails", 2) == 1 {
		vParseErr = true
		return errors.New("unpack failed")
	}
	vUnpackPolicy = vMakePolicy()
	vSetField0(to, *vUnpackPolicy)
	vParseAt = vTick()
	return nil
}

func vstubLoadFilter(f seccomp.Filter) error {
	vLoadCalls++
	vLoadAt = vTick()
	vLoaded = f
	if vLayer == 2 {
		err := seccomp.LoadFilter(f)
		vLoadErr = err != nil
		return err
	}
	switch vChoice("load.fails", 3) {
	case 1:
		vLoadErr = true
		return errors.New("kernel refused")
	case 2:
		// a failure that carries an arbitrary errno (as the real LoadFilter wraps it)
		vLoadErr = true
		e := syscall.Errno(vU32("load.errno"))
		vAssume(e != 0)
		return fmt.Errorf("failed loading seccomp filter: %w", e)
	}
	vLoadErr = false
	return nil
}

func vstubCommand(name string, arg ...string) *exec.Cmd {
	vExecName, vExecArgs = name, arg
	return &exec.Cmd{Path: name, Args: append([]string{name}, arg...)}
}

func vstubCmdRun(c *exec.Cmd) error {
	vExecCalls++
	vExecAt = vTick()
	switch vChoice("exec.fails", 3) {
	case 1:
		return errors.New("fork/exec: no such file or directory")
	case 2:
		// the target ran and ended unsuccessfully: exit status 1..127, or -1 (killed by a signal)
		code := int(int8(vU8("exec.exit")))
		vAssume(vOr(code == -1, code >= 1))
		return &exec.ExitError{ProcessState: vProcState(code)}
	}
	return nil
}

func vstubCommandContext(ctx context.Context, name string, arg ...string) *exec.Cmd {
	return vstubCommand(name, arg...)
}

// a context nobody cancels (signals are outside the model)
type vCtx struct{}

func (vCtx) Deadline() (time.Time, bool)       { return time.Time{}, false }
func (vCtx) Done() <-chan struct{}             { return nil }
func (vCtx) Err() error                        { return nil }
func (vCtx) Value(key interface{}) interface{} { return nil }

func vstubBackground() context.Context { return vCtx{} }
func vstubNotifyContext(parent context.Context, sig ...os.Signal) (context.Context, context.CancelFunc) {
	return vCtx{}, func() {}
}

// flag.FlagSet: the same model as the global flag functions
func vstubNewFlagSet(name string, h flag.ErrorHandling) *flag.FlagSet { return &flag.FlagSet{} }
func vstubFSStringVar(fs *flag.FlagSet, p *string, name, value, usage string) {
	vstubStringVar(p, name, value, usage)
}
func vstubFSBoolVar(fs *flag.FlagSet, p *bool, name string, value bool, usage string) {
	vstubBoolVar(p, name, value, usage)
}
func vstubFSSetOutput(fs *flag.FlagSet, w io.Writer) {}
func vstubFSPrintDefaults(fs *flag.FlagSet)            {}
func vstubFSString(fs *flag.FlagSet, name, value, usage string) *string {
	p := new(string)
	vstubStringVar(p, name, value, usage)
	return p
}
func vstubFSBool(fs *flag.FlagSet, name string, value bool, usage string) *bool {
	p := new(bool)
	vstubBoolVar(p, name, value, usage)
	return p
}
func vstubFlagString(name, value, usage string) *string { return vstubFSString(nil, name, value, usage) }
func vstubFlagBool(name string, value bool, usage string) *bool {
	return vstubFSBool(nil, name, value, usage)
}
func vstubFSParse(fs *flag.FlagSet, args []string) error { return nil }
func vstubFSArgs(fs *flag.FlagSet) []string              { return vArgs }
func vstubFSNArg(fs *flag.FlagSet) int                   { return len(vArgs) }
func vstubFSArg(fs *flag.FlagSet, i int) string {
	if i < 0 || i >= len(vArgs) {
		return ""
	}
	return vArgs[i]
}
func vstubNArg() int { return len(vArgs) }
func vstubFlagArg(i int) string {
	if i < 0 || i >= len(vArgs) {
		return ""
	}
	return vArgs[i]
}

func vstubFatal(v ...interface{})                 { vExitCode = 1; vExitNow() }
func vstubFatalf(format string, v ...interface{}) { vExitCode = 1; vExitNow() }
func vstubFatalln(v ...interface{})               { vExitCode = 1; vExitNow() }

func vstubExit(code int) {
	vExitCode = code
	vExitNow()
}

// H_SandboxMain: C15. main() is executed over every combination of failures
// of its environment. Parameters: layer (1 config
// library stubbed, 2 real LoadFilter on a kernel-contract stub, with
// badsyscall = 1 naming an unknown syscall), argc.
func H_SandboxMain() {
	vLayer = vParamInt("layer")
	vBadSyscall = vParamInt("badsyscall") == 1
	argc := vParamInt("argc")
	vArgs = nil
	for i := 0; i < argc; i++ {
		vArgs = append(vArgs, "target"+strconv.Itoa(i))
	}
	vEvents, vExitCode, vParseTried, vParseErr, vLoadErr, vLoadCalls, vExecCalls, vClock = nil, -1, false, false, false, 0, 0, 0
	vUnpackPolicy = nil
	vParseAt, vLoadAt, vExecAt = 0, 0, 0
	vFileLen, vShort, vLimit, vLimited = -1, false, 0, false

	code := vRun(main)
	vAssert(code != 1, "C15.nopanic")
	if code == 1 {
		return
	}
	exited := code == 2
	vObs("exit", uint64(int64(vExitCode)))
	vObs("exec", uint64(vExecCalls))
	vObs("load", uint64(vLoadCalls))

	if argc == 0 {
		vAssert(exited && vExitCode != 0, "C15.noargs_exit")
		vAssert(vExecCalls == 0, "C15.noargs_noexec")
		vCover("cover.noargs")
		return
	}
	if vExecCalls > 0 {
		vCover("cover.exec")
		vAssert(vExecCalls == 1, "C15.one_exec")
		vAssert(vParseAt > 0 && !vParseErr, "C15.exec_needs_parse")
		vAssert(vLoadCalls >= 1 && !vLoadErr, "C15.exec_needs_load")
		vAssert(vParseAt < vLoadAt && vLoadAt < vExecAt, "C15.order")
		// the filter handed over is the parsed policy, thread-synced, with the flag's no_new_privs
		pol := vUnpackPolicy
		if pol != nil {
			same := vAnd(vLoaded.Policy.DefaultAction == pol.DefaultAction, len(vLoaded.Policy.Syscalls) == len(pol.Syscalls))
			if len(vLoaded.Policy.Syscalls) == 1 && len(pol.Syscalls) == 1 {
				a, b := vLoaded.Policy.Syscalls[0], pol.Syscalls[0]
				same = vAnd(same, vAnd(a.Action == b.Action, len(a.Names) == len(b.Names)))
				if len(a.Names) == len(b.Names) {
					for i := range a.Names {
						if a.Names[i] != b.Names[i] {
							same = false
						}
					}
				}
			}
			vAssert(same, "C15.policy_passed")
		} else {
			vAssert(false, "C15.policy_passed")
		}
		vAssert(!vShort, "C15.whole_file")
		vAssert(vLoaded.Flag&seccomp.FilterFlagTSync != 0, "C15.tsync")
		vAssert(vLoaded.NoNewPrivs == vFlagNNP, "C15.nnp_flag")
		vAssert(vExecName == vArgs[0] && len(vExecArgs) == argc-1, "C15.target")
	}
	if vParseErr || vLoadErr || (vParseAt == 0) {
		vCover("cover.failed_before_exec")
		vAssert(vExecCalls == 0, "C15.fail_noexec")
		vAssert(exited && vExitCode != 0, "C15.fail_exit")
	}
	if vParseErr {
		vAssert(vLoadCalls == 0, "C15.parse_fail_noload")
	}
	if vBadSyscall && vLayer == 2 {
		vAssert(vExecCalls == 0, "C15.unknown_syscall_noexec")
		vAssert(exited && vExitCode != 0, "C15.unknown_syscall_exit")
		vCover("cover.unknown_syscall")
	}
}
