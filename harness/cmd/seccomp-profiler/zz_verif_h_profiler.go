package main

import (
	"errors"
	"flag"
	"io"
	"strconv"

	seccomp "github.com/elastic/go-seccomp-bpf"
	"github.com/elastic/go-seccomp-bpf/arch"
	"github.com/elastic/go-seccomp-bpf/cmd/seccomp-profiler/disasm"
)

func init() {
	vRegister("H_ProfMain", H_ProfMain)
}

// ---------------------------------------------------------------------------
// Environment stubs for main() (engine: redirected by callee name; native
// replay: main.go compiled with the selectors rewritten).

var (
	vExitCode   int
	vFound      []disasm.Syscall
	vInfo       *arch.Info
	vOutNames   []string
	vOutGot     bool
	vOutSorted  bool
	vOutPolicy  seccomp.Policy
	vOutKind    string
	vExtractErr bool
)

func vstubStringVar(p *string, name, value, usage string)       { *p = value }
func vstubBoolVar(p *bool, name string, value bool, usage string) { *p = value }
func vstubFlagVar(v flag.Value, name, usage string)             {}
func vstubFlagParse()                                           {}
func vstubFlagArg(i int) string                                 { return "binary" }
func vstubFatal(v ...interface{})                               { vExitCode = 1; vExitNow() }
func vstubFatalf(format string, v ...interface{})               { vExitCode = 1; vExitNow() }

func vstubGetBinaryArch(binary string) (*arch.Info, string, error) { return vInfo, "amd64", nil }
func vstubHashBinary(binary string) (string, error)                { return "hash", nil }
func vstubDoObjdump(binary, hash string) (string, error)           { return "dump", nil }
func vstubExtractSyscalls(a *arch.Info, objDump string) ([]disasm.Syscall, error) {
	if vExtractErr {
		return nil, errors.New("extract failed")
	}
	return vFound, nil
}

type vSink struct{}

func (vSink) Write(p []byte) (int, error) { return len(p), nil }
func (vSink) Close() error                { return nil }

func vstubOpenOutput(goarch string) (io.WriteCloser, error) { return vSink{}, nil }

func vstubWriteGoTemplate(w io.Writer, goarch string, syscalls []string) error {
	vOutKind, vOutNames, vOutGot = "code", syscalls, true
	vOutSorted = vWasSorted(syscalls)
	return nil
}

// yaml.Marshal: captures the value handed over (writeProfileConfig / writeDebugYAML)
func vstubYAMLMarshal(in interface{}) ([]byte, error) {
	if p, ok := vField0(in).(seccomp.Policy); ok {
		vOutKind, vOutPolicy, vOutGot = "config", p, true
		if len(p.Syscalls) == 1 {
			vOutNames = p.Syscalls[0].Names
			vOutSorted = vWasSorted(vOutNames)
		}
	}
	return []byte("yaml"), nil
}

func vIn(x string, xs []string) bool {
	r := false
	for _, y := range xs {
		r = vOr(r, x == y)
	}
	return r
}

// H_ProfMain: C18. main() of the profiler with everything up to
// ExtractSyscalls stubbed. Parameters: k (discovered syscalls), nb (blacklist
// entries), na (allow-list entries), format ("code" / "config"), order (map
// iteration order).
func H_ProfMain() {
	k, nb, na := vParamInt("k"), vParamInt("nb"), vParamInt("na")
	vInfo = arch.X86_64
	if vParamStr("arch") == "i386" {
		vInfo = arch.I386
	}
	vMapOrder(vParamStr("order"))
	format = vParamStr("format")
	debug = false
	outFile = "-"
	vExitCode, vOutGot, vOutNames, vExtractErr = -1, false, nil, false
	vFound = nil
	var foundNames []string
	for i := 0; i < k; i++ {
		num := vInt("found" + strconv.Itoa(i) + ".num")
		name, ok := vInfo.SyscallNumbers[num]
		vAssume(ok) // ExtractSyscalls only reports table entries (C16)
		vFound = append(vFound, disasm.Syscall{Num: num, Name: name})
		foundNames = append(foundNames, name)
	}
	// C12's obligation, used as a lemma here: no name has two numbers (different numbers carry
	// different names). Without it every duplicate-freedom query re-proves the injectivity of the
	// whole table (tens of seconds each).
	for i := range vFound {
		for j := i + 1; j < len(vFound); j++ {
			vAssume(vImplies(vFound[i].Num != vFound[j].Num, vFound[i].Name != vFound[j].Name))
		}
	}
	blacklist, allowList = nil, nil
	for i := 0; i < nb; i++ {
		blacklist = append(blacklist, vEqStr("black"+strconv.Itoa(i)))
	}
	for i := 0; i < na; i++ {
		allowList = append(allowList, vEqStr("allow"+strconv.Itoa(i)))
	}
	// premise of the statement: disjoint flag sets
	for _, b := range blacklist {
		for _, a := range allowList {
			vAssume(a != b)
		}
	}
	bl := append([]string(nil), blacklist...)
	al := append([]string(nil), allowList...)

	code := vRun(main)
	vMapOrder("asc")
	vAssert(code == 0, "C18.completes")
	if code != 0 {
		return
	}
	vAssert(vOutGot, "C18.output")
	if !vOutGot {
		return
	}
	vCover("cover.output")
	out := vOutNames
	vObs("nout", uint64(len(out)))

	// set algebra: x in out <=> (found and not blacklisted) or (allowed and a table name)
	x := vEqStr("x")
	_, isName := vInfo.SyscallNames[x]
	want := vOr(vAnd(vIn(x, foundNames), vNot(vIn(x, bl))), vAnd(vIn(x, al), isName))
	vAssert(vIn(x, out) == want, "C18.set")
	vReach(vAnd(want, vIn(x, al)), "cover.set.allowed")
	vReach(vAnd(vIn(x, foundNames), vIn(x, bl)), "cover.set.blacklisted")
	// duplicate free
	nodup := true
	for i := range out {
		for j := i + 1; j < len(out); j++ {
			nodup = vAnd(nodup, out[i] != out[j])
		}
	}
	vAssert(nodup, "C18.nodup")
	// only names valid for the architecture
	for i := range out {
		_, ok := vInfo.SyscallNames[out[i]]
		vAssert(ok, "C18.valid@"+strconv.Itoa(i))
	}
	// sorted: what is emitted is the slice sort.Strings was last applied to, unmodified since
	vAssert(vOutSorted, "C18.sorted")
	// the emitted policy
	if format == "config" {
		p := vOutPolicy
		ok := uint32(p.DefaultAction) == 0x00050000 && len(p.Syscalls) == 1
		if ok {
			g := p.Syscalls[0]
			ok = uint32(g.Action) == 0x7fff0000 && len(g.NamesWithCondtions) == 0
		}
		vAssert(ok, "C18.policy")
		vCover("cover.config")
	} else {
		vCover("cover.code")
	}
}
