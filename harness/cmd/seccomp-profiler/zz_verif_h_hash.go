package main

import (
	"bufio"
	"encoding/hex"
	"errors"
	"hash"
	"io"
	"os"
)

func init() {
	vRegister("H_Hash", H_Hash)
}

// ---------------------------------------------------------------------------
// hashBinary (C17: "complete for the exact binary"). The cache is keyed by
// what hashBinary returns: doObjdump accepts a cache file whose first 64 bytes
// equal the hash. The two-run obligation of H_Objdump therefore rests on a
// lemma decided here: what hashBinary returns without an error is either the
// digest of the WHOLE binary or something that can never pass for a cache key
// (not 64 characters long) - never a 64-digit value computed from a read that
// failed half-way, which two different binaries with a common prefix would
// share. (The pinned source returns "" and a nil error when the read fails:
// odd, but the empty key matches no cache header, which H_Objdump's
// empty-hash instances confirm; demanding an error there would be more than
// the property states.)

var (
	vHashFed   int // 0 nothing, 1 a prefix (the read failed), 2 the whole binary
	vReadFails bool
)

type vHashModel struct{}

func (vHashModel) Write(p []byte) (int, error) { return len(p), nil }
func (vHashModel) Reset()                      {}
func (vHashModel) Size() int                   { return 32 }
func (vHashModel) BlockSize() int              { return 64 }

// the digest is a function of what was fed: three distinguishable values
func (vHashModel) Sum(b []byte) []byte {
	d := make([]byte, 32)
	for i := range d {
		d[i] = byte(16*vHashFed + i)
	}
	return append(b, d...)
}

func vstubSha256New() hash.Hash { return vHashModel{} }

func vstubNewReader(rd io.Reader) *bufio.Reader { return &bufio.Reader{} }

// io.Copy from the binary into the hash: everything, or a read error after an
// arbitrary number of bytes (EIO, a file on a network share going away, ...).
func vstubCopy(dst io.Writer, src io.Reader) (int64, error) {
	if vChoice("binary.read_fails", 2) == 1 {
		vReadFails = true
		vHashFed = 1
		return int64(vU32("binary.copied")), errors.New("read bin: input/output error")
	}
	vHashFed = 2
	return int64(vU32("binary.size")), nil
}

func H_Hash() {
	vFiles = map[string]*vFileState{}
	vHandles = map[*os.File]*vHandle{}
	vHashFed, vReadFails = 0, false
	present := vChoice("binary.exists", 2) == 1
	if present {
		vFS("bin").exists = true
	}
	var h string
	var err error
	code := vRun(func() { h, err = hashBinary("bin") })
	vAssert(code == 0, "C17.hash_nopanic")
	if code != 0 {
		return
	}
	if !present {
		vCover("cover.hash_open_failed")
		vAssert(err != nil, "C17.hash_open_err")
		return
	}
	if vReadFails {
		vCover("cover.hash_read_failed")
		// a digest-like value from a partial read would be compared with the cache header
		// and accept a cache written for other contents
		vAssert(err != nil || len(h) != 64, "C17.hash_partial_is_no_key")
		return
	}
	vCover("cover.hash_ok")
	vAssert(err == nil, "C17.hash_ok")
	vHashFed = 2
	want := hex.EncodeToString(vHashModel{}.Sum(nil))
	vAssert(h == want, "C17.hash_exact")
	vAssert(len(h) == 64, "C17.hash_len")
}
