package main

import (
	"bufio"
	"errors"
	"io"
	"os"
	"os/exec"
	"path/filepath"
	"sort"
	"strconv"
	"strings"
)

func init() {
	vRegister("H_Objdump", H_Objdump)
}

// ---------------------------------------------------------------------------
// Model file system (DESIGN.md C17): files by name; contents are strings
// (symbolic); a crash leaves, for every file open for writing, some prefix of
// what was written to it (including what a buffered writer still holds).

type vFileState struct {
	exists  bool
	content string
}

type vHandle struct {
	name    string
	writing bool
	closed  bool
}

var (
	vFiles     map[string]*vFileState
	vHandles   map[*os.File]*vHandle
	vWriters   map[*bufio.Writer]*os.File
	vPending   map[*bufio.Writer]string
	vTmpSeq    int
	vCrashOn   bool
	vCrashed   bool
	vCrashSeq  int
	vDump      string // what the disassembler prints for the binary (a function of the binary, i.e. of its hash)
	vDumpFails int    // 0 ok, 1 fails after printing a prefix
	vRunCalls  int
	vWriteFail bool   // writes to the file system may fail (disk full, quota): Flush writes a prefix and errs, Close may err
	vFailSeq   int
)

func vFS(name string) *vFileState {
	f, ok := vFiles[name]
	if !ok {
		f = &vFileState{}
		vFiles[name] = f
	}
	return f
}

// vCrashPoint: the process may die here (first run only). Every file that is
// open for writing keeps a prefix of what was handed to it.
func vCrashPoint(at string) {
	if !vCrashOn || vCrashed {
		return
	}
	if vChoice("crash@"+at, 2) == 0 {
		return
	}
	vCrashed = true
	for f, h := range vHandles {
		if !h.writing || h.closed {
			continue
		}
		written := vFS(h.name).content
		for w, wf := range vWriters {
			if wf == f {
				written += vPending[w]
			}
		}
		vCrashSeq++
		left := vStr("left" + strconv.Itoa(vCrashSeq))
		vAssume(vPrefixOf(left, written))
		vFS(h.name).content = left
	}
	vCrashNow()
}

// names as the real command makes them: <cache dir>/<base name of the binary>-<hash of its path>, temporary
// files <that name>.tmp<random> - so that code which lists or matches file names meets realistic ones
func vstubCachedDumpFile(binary string) (string, error) { return "cache/bin-0a1b2c3d", nil }

// vstubGlob: the existing files of the model file system whose names match the pattern (real matching
// on the concrete names), in directory order.
func vstubGlob(pattern string) ([]string, error) {
	var names, out []string
	for n := range vFiles {
		names = append(names, n)
	}
	sort.Strings(names)
	for _, n := range names {
		if ok, _ := filepath.Match(pattern, n); ok && vFiles[n].exists {
			out = append(out, n)
		}
	}
	return out, nil
}

// vstubReadFull: io.ReadFull over the Read stub.
func vstubReadFull(r io.Reader, b []byte) (int, error) {
	f, ok := r.(*os.File)
	if !ok {
		return 0, errors.New("unmodelled reader")
	}
	n, err := vstubFileRead(f, b)
	if n == len(b) {
		return n, nil
	}
	if err == nil || n > 0 {
		return n, io.ErrUnexpectedEOF
	}
	return n, io.EOF
}

func vstubOpen(name string) (*os.File, error) {
	if !vFS(name).exists {
		return nil, errors.New("no such file")
	}
	f := &os.File{}
	vHandles[f] = &vHandle{name: name}
	return f, nil
}

func vstubCreate(name string) (*os.File, error) {
	if vChoice("create.fails", 2) == 1 {
		return nil, errors.New("create failed")
	}
	st := vFS(name)
	st.exists, st.content = true, ""
	f := &os.File{}
	vHandles[f] = &vHandle{name: name, writing: true}
	vCrashPoint("create")
	return f, nil
}

func vstubCreateTemp(dir, pattern string) (*os.File, error) {
	if vChoice("createtemp.fails", 2) == 1 {
		return nil, errors.New("create failed")
	}
	vTmpSeq++
	name := dir + "/" + pattern + strconv.Itoa(vTmpSeq)
	if i := strings.LastIndex(pattern, "*"); i >= 0 {
		name = dir + "/" + pattern[:i] + strconv.Itoa(vTmpSeq) + pattern[i+1:]
	}
	st := vFS(name)
	st.exists, st.content = true, ""
	f := &os.File{}
	vHandles[f] = &vHandle{name: name, writing: true}
	vCrashPoint("createtemp")
	return f, nil
}

func vstubFileName(f *os.File) string { return vHandles[f].name }

func vstubFileRead(f *os.File, b []byte) (int, error) {
	h := vHandles[f]
	c := vFS(h.name).content
	if vLenAtLeast(c, len(b)) {
		vTagBuf(b, vFirst(c, len(b)))
		return len(b), nil
	}
	n := vInt("short.read")
	vAssume(n >= 0)
	vAssume(n < len(b))
	if vChoice("short.read.eof", 2) == 1 {
		return n, io.EOF
	}
	return n, nil
}

func vstubFileWrite(f *os.File, b []byte) (int, error) {
	h := vHandles[f]
	st := vFS(h.name)
	if vCrashed {
		return len(b), nil
	}
	st.content += string(b)
	return len(b), nil
}

func vstubFileClose(f *os.File) error {
	h, ok := vHandles[f]
	already := ok && h.closed
	if ok {
		h.closed = true
	}
	vCrashPoint("close")
	if vWriteFail && ok && h.writing && !already && vChoice("close.fails", 2) == 1 {
		return errors.New("close failed")
	}
	return nil
}

func vstubFileSync(f *os.File) error { vCrashPoint("sync"); return nil }

func vstubRename(from, to string) error {
	if vCrashed {
		return nil
	}
	if vChoice("rename.fails", 2) == 1 {
		return errors.New("rename failed")
	}
	src := vFS(from)
	dst := vFS(to)
	dst.exists, dst.content = src.exists, src.content
	src.exists, src.content = false, ""
	vCrashPoint("rename")
	return nil
}

func vstubRemove(name string) error {
	if vCrashed {
		// a crashed process runs no deferred calls (the native replay signals the crash by a panic, which does)
		return nil
	}
	st := vFS(name)
	st.exists, st.content = false, ""
	return nil
}

func vstubNewWriter(w io.Writer) *bufio.Writer {
	bw := &bufio.Writer{}
	if f, ok := w.(*os.File); ok {
		vWriters[bw] = f
	}
	vPending[bw] = ""
	return bw
}

func vstubWriteString(w *bufio.Writer, s string) (int, error) {
	vPending[w] += s
	vCrashPoint("writestring")
	return vLen(s), nil
}

func vstubFlush(w *bufio.Writer) error {
	if vWriteFail && vChoice("flush.fails", 2) == 1 {
		// the device takes only part of the buffered data
		if f, ok := vWriters[w]; ok {
			if h := vHandles[f]; h != nil && !h.closed {
				vFailSeq++
				part := vStr("flushed" + strconv.Itoa(vFailSeq))
				vAssume(vPrefixOf(part, vPending[w]))
				vFS(h.name).content += part
			}
		}
		vPending[w] = ""
		return errors.New("no space left on device")
	}
	if f, ok := vWriters[w]; ok {
		if h := vHandles[f]; h != nil && !h.closed {
			vFS(h.name).content += vPending[w]
		}
	}
	vPending[w] = ""
	vCrashPoint("flush")
	return nil
}

func vstubCommand(name string, arg ...string) *exec.Cmd { return &exec.Cmd{Path: name} }

// os.ReadFile: the whole content, or an error
func vstubReadFile(name string) ([]byte, error) {
	st := vFS(name)
	if !st.exists {
		return nil, errors.New("no such file")
	}
	b := []byte(st.content)
	vTagBuf(b, st.content)
	return b, nil
}

// os.WriteFile: create/truncate, write, close - NOT atomic: a crash in the middle leaves a prefix
func vstubWriteFile(name string, data []byte, perm os.FileMode) error {
	if vChoice("writefile.fails", 2) == 1 {
		return errors.New("write failed")
	}
	st := vFS(name)
	st.exists, st.content = true, ""
	f := &os.File{}
	vHandles[f] = &vHandle{name: name, writing: true}
	st.content = string(data)
	vCrashPoint("writefile")
	vHandles[f].closed = true
	return nil
}

// Cmd.Output / CombinedOutput: what the disassembler printed, and how it ended
func vstubCmdOutput(c *exec.Cmd) ([]byte, error) {
	saved := c.Stdout
	var w bufio.Writer
	c.Stdout = &w
	vWriters[&w] = nil
	vPending[&w] = ""
	err := vstubCmdRun(c)
	out := vPending[&w]
	delete(vPending, &w)
	delete(vWriters, &w)
	c.Stdout = saved
	b := []byte(out)
	vTagBuf(b, out)
	return b, err
}

// the disassembler: prints vDump to cmd.Stdout, or a prefix of it and fails
func vstubCmdRun(c *exec.Cmd) error {
	vRunCalls++
	out := vDump
	if vDumpFails == 1 {
		out = vStr("partial.dump" + strconv.Itoa(vRunCalls))
		vAssume(vPrefixOf(out, vDump))
	}
	switch w := c.Stdout.(type) {
	case *bufio.Writer:
		vPending[w] += out
	case *os.File:
		vFS(vHandles[w].name).content += out
	}
	vCrashPoint("objdump")
	if vDumpFails == 1 {
		// Cmd.Run: "If the command starts but does not complete successfully, the
		// error is of type *ExitError. Other error types may be returned for other
		// situations."
		if vChoice("objdump.error_kind"+strconv.Itoa(vRunCalls), 2) == 0 {
			return errors.New("exec: \"go\": executable file not found in $PATH")
		}
		// exit status 1..127, or -1: ended by a signal (OOM killer, timeout wrapper)
		code := int(int8(vU8("objdump.exit" + strconv.Itoa(vRunCalls))))
		vAssume(vOr(code == -1, code >= 1))
		return &exec.ExitError{ProcessState: vProcState(code)}
	}
	return nil
}

// H_Objdump: C17. doObjdump runs twice over the model file system. The first
// run may crash at any stub call (or its disassembler may fail); the second
// run is uninterrupted. Whenever the second run returns a path, the file there
// must be complete for the binary: hash, newline, the full disassembly.
// Parameters: samehash (1: second run for the same binary, 0: another one),
// firstfails (1: disassembler of run 1 fails), crash (1: run 1 may crash),
// wfail (1: writes of run 1 may fail: Flush takes a prefix and errs, Close errs),
// emptyhash (1 / 2: the hash of run 1 / run 2 is the empty string).
func H_Objdump() {
	vFiles = map[string]*vFileState{}
	vHandles = map[*os.File]*vHandle{}
	vWriters = map[*bufio.Writer]*os.File{}
	vPending = map[*bufio.Writer]string{}
	vTmpSeq, vCrashSeq, vRunCalls = 0, 0, 0

	h1 := vStr("hash1")
	vAssume(vIsHex(h1, 64))
	d1 := vStr("dump1")
	vAssume(vIsText(d1))
	h2, d2 := h1, d1
	if vParamInt("samehash") == 0 {
		h2 = vStr("hash2")
		vAssume(vIsHex(h2, 64))
		vAssume(h1 != h2)
		d2 = vStr("dump2")
		vAssume(vIsText(d2))
	}
	// emptyhash: one of the runs had a binary whose read failed, for which hashBinary
	// (H_Hash's lemma) yields a key that is not 64 characters long - the empty string
	switch vParamInt("emptyhash") {
	case 1:
		h1 = ""
	case 2:
		h2 = ""
	}

	// run 1
	vDump, vDumpFails = d1, vParamInt("firstfails")
	vCrashOn, vCrashed = vParamInt("crash") == 1, false
	vWriteFail = vParamInt("wfail") == 1
	var p1 string
	var e1 error
	code1 := vRun(func() { p1, e1 = doObjdump("bin", h1) })
	vAssert(code1 == 0 || code1 == 3, "C17.run1_nopanic")
	if code1 != 0 && code1 != 3 {
		return
	}
	if code1 == 3 {
		vCover("cover.crashed")
	}
	if code1 == 0 && e1 == nil {
		// an uninterrupted successful run leaves a complete file
		vAssert(vFS(p1).exists && vFS(p1).content == h1+"\n"+d1, "C17.run1_complete")
		vCover("cover.run1_ok")
	}
	if code1 == 0 && e1 != nil {
		vCover("cover.run1_failed")
	}

	// run 2: uninterrupted, working disassembler
	vHandles = map[*os.File]*vHandle{}
	vWriters = map[*bufio.Writer]*os.File{}
	vPending = map[*bufio.Writer]string{}
	vDump, vDumpFails = d2, 0
	vCrashOn, vWriteFail, vCrashed = false, false, false
	before := vRunCalls
	var p2 string
	var e2 error
	code2 := vRun(func() { p2, e2 = doObjdump("bin", h2) })
	vAssert(code2 == 0, "C17.run2_nopanic")
	if code2 != 0 {
		return
	}
	if e2 != nil {
		vCover("cover.run2_error")
		return
	}
	vCover("cover.run2_ok")
	if vRunCalls == before {
		vCover("cover.cache_used")
	}
	st := vFS(p2)
	vAssert(st.exists, "C17.exists")
	vKnownCache(st.content, h2, d2)
	vAssert(st.content == h2+"\n"+d2, "C17.complete_or_error")
}

func vKnownCache(content, h, d string) {}
