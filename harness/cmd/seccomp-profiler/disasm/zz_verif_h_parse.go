package disasm

import (
	"bufio"
	"errors"
	"io"
	"os"
	"regexp"
	"strconv"
	"strings"
)

func init() {
	vRegister("H_Parse", H_Parse)
}

// ---------------------------------------------------------------------------
// Model scanner and summaries (the engine redirects the callees by name; the
// native replay compiles disasm.go with the selectors rewritten).

var (
	vLines       []string // the symbolic lines of the listing
	vYield       int      // lines the scanner delivers before it stops
	vScanFails   bool     // ... and whether it stops with an error
	vScanTooLong bool     // ... which is bufio.ErrTooLong (a line above the scanner's limit)
	vPos         int      // lines delivered so far
	vLastMarker  int      // index (1-based) of the last function marker delivered, 0 = none
	vOpenFails   bool
	vFindMemo    map[int]int
	vFindCalls   int
	vWindowsOK   bool
	vWindowsSame bool
	vWindowsFull bool
	vLastSite    int // index (1-based) of the last line for which the line parser returned a syscall, 0 = none
)

// a concrete instruction line that is neither a function marker nor a syscall site: padding between the
// symbolic lines of a long listing (layout parameter)
const vFiller = "  main.go:12\t\t0x45f2a1\t\t4889442408\t\tMOVQ AX, 0x8(SP)"

func vstubOpen(name string) (*os.File, error) {
	if vOpenFails {
		return nil, errors.New("open failed")
	}
	return &os.File{}, nil
}
func vstubFileClose(f *os.File) error            { return nil }
func vstubNewReader(rd io.Reader) *bufio.Reader   { return &bufio.Reader{} }
func vstubNewScanner(r io.Reader) *bufio.Scanner {
	vPos, vLastMarker, vLastSite = 0, 0, 0
	return &bufio.Scanner{}
}
func vstubScan(s *bufio.Scanner) bool {
	if vPos < vYield {
		vPos++
		// format fact: a function starts at a line that begins with TEXT
		if strings.HasPrefix(vLines[vPos-1], "TEXT") {
			vLastMarker = vPos
		}
		return true
	}
	return false
}
func vstubText(s *bufio.Scanner) string { return vLines[vPos-1] }
func vstubScanErr(s *bufio.Scanner) error {
	if vScanFails {
		if vScanTooLong {
			// the line after the delivered ones exceeds the scanner's limit: the scan ends there
			return bufio.ErrTooLong
		}
		return errors.New("read error")
	}
	return nil
}

// a larger buffer moves the limit, it does not remove it
func vstubBuffer(s *bufio.Scanner, buf []byte, max int) {}

// vstubFindSyscallNum summarises findSyscallNum (regular expressions and number
// parsing are not encoded): the result is an arbitrary number or an error.
// What is checked is the window it is given.
func vstubFindSyscallNum(instructions []string, sc *Syscall, matchers ...*regexp.Regexp) error {
	vFindCalls++
	k, n := vPos, len(instructions)
	// every element must come from the current function: after its marker, up to the current line
	if n > k-vLastMarker {
		vWindowsOK = false
	}
	// ... and the search must see every line of the function since the previous site (a load further
	// back than some fixed distance is still the load of this site)
	last := vLastMarker
	if vLastSite > last {
		last = vLastSite
	}
	if n < k-last {
		vWindowsFull = false
	}
	for i := 0; i < n; i++ {
		j := k - n + i
		if j < 0 || instructions[i] != vLines[j] {
			vWindowsSame = false
		}
	}
	fails, ok := vFindMemo[k]
	if !ok {
		fails = vChoice("find"+strconv.Itoa(k)+".fails", 2)
		vFindMemo[k] = fails
	}
	if fails == 1 {
		return errors.New("instruction loading the syscall number not found")
	}
	sc.Num = vIntSame("find" + strconv.Itoa(k) + ".num")
	sc.Assembly = "MOVQ $n, AX"
	return nil
}

// H_Parse: C16. Parse runs over L symbolic lines delivered by a model
// scanner that may stop early with or without an error. Parameters: L, M
// (extra lines for the monotonicity run), arch ("x86_64" or "i386").
func H_Parse() {
	L, M := vParamInt("L"), vParamInt("M")
	p := x86_64Parser
	if vParamStr("arch") == "i386" {
		p = i386Parser
	}
	vLines = nil
	firstSym := -1
	if lay := vParamStr("layout"); lay != "" {
		// a long listing: "s" is a symbolic line, "f<n>" n concrete filler lines, e.g. "s,f600,s"; L is ignored
		L, M = 0, 0
		ns := 0
		for _, it := range strings.Split(lay, ",") {
			if it == "s" {
				ns++
				if firstSym < 0 {
					firstSym = len(vLines)
				}
				vLines = append(vLines, vLine("line"+strconv.Itoa(ns)))
				L++
				continue
			}
			n, _ := strconv.Atoi(it[1:])
			for j := 0; j < n; j++ {
				vLines = append(vLines, vFiller)
			}
			L += n
		}
	} else {
		for i := 0; i < L+M; i++ {
			vLines = append(vLines, vLine("line"+strconv.Itoa(i+1)))
		}
	}
	// optional case split on the first line (a partition: the four classes cover every line), so that
	// the instances of a long listing can run in parallel
	if cl := vParamInt("class1"); cl > 0 && L+M > 0 {
		l1 := vLines[0]
		if firstSym >= 0 {
			l1 = vLines[firstSym]
		}
		isText := strings.HasPrefix(l1, "TEXT")
		isRaw := false
		for _, ins := range p.rawSyscallInstructions {
			isRaw = vOr(isRaw, strings.Contains(l1, ins))
		}
		isCall := strings.Contains(l1, "CALL")
		switch cl {
		case 1:
			vAssume(isText)
		case 2:
			vAssume(vAnd(vNot(isText), isRaw))
		case 3:
			vAssume(vAnd(vNot(isText), vAnd(vNot(isRaw), isCall)))
		default:
			vAssume(vAnd(vNot(isText), vAnd(vNot(isRaw), vNot(isCall))))
		}
	}
	vFindMemo = map[int]int{}
	vWindowsOK, vWindowsSame, vWindowsFull = true, true, true
	// observe where the line parser reports a site (the window restarts there)
	orig := p.parse
	p.parse = func(q *parser, line, caller string, instructions []string) (*Syscall, error) {
		sc, err := orig(q, line, caller, instructions)
		if sc != nil {
			vLastSite = vPos
		}
		return sc, err
	}
	defer func() { p.parse = orig }()
	vOpenFails = false
	if y := vParamInt("yield"); y >= 0 {
		vYield = y
	} else {
		vYield = vChoice("yield", L+1)
	}
	if f := vParamInt("scanfails"); f >= 0 {
		vScanFails = f >= 1
		vScanTooLong = f == 2
	} else {
		vScanFails = vChoice("scan.fails", 2) == 1
	}

	var res []Syscall
	var err error
	code := vRun(func() { res, err = p.Parse("objdump.txt") })
	vObs("yield", uint64(vYield))
	vObs("nres", uint64(len(res)))
	// (a) total: terminates (no unwinding failure ends the path) and never panics
	vAssert(code == 0, "C16.nopanic")
	if code != 0 {
		return
	}
	vCover("cover.returned")
	// (b) a read failure is an error, never a partial result
	if vScanFails {
		vCover("cover.scan_failed")
		vAssert(err != nil, "C16.err")
		vAssert(len(res) == 0, "C16.err_no_partial")
		return
	}
	vAssert(err == nil, "C16.readable_ok")
	// (c) function scope
	vAssert(vWindowsOK, "C16.scope")
	vAssert(vWindowsSame, "C16.scope_lines")
	vAssert(vWindowsFull, "C16.window_complete")
	if vFindCalls > 0 {
		vCover("cover.find_called")
	}
	// (d) every reported syscall exists in the table under the reported name
	for i, s := range res {
		name, found := p.SyscallNumbers[s.Num]
		vAssert(vAnd(found, name == s.Name), "C16.table@"+strconv.Itoa(i))
		vCover("cover.reported")
	}
	// (e) appending lines never removes syscalls found before
	if M > 0 && vYield == L {
		first := res
		vYield = L + M
		var res2 []Syscall
		var err2 error
		code2 := vRun(func() { res2, err2 = p.Parse("objdump.txt") })
		vAssert(code2 == 0, "C16.nopanic")
		if code2 != 0 {
			return
		}
		vAssert(err2 == nil, "C16.readable_ok")
		vAssert(len(res2) >= len(first), "C16.monotone_len")
		if len(res2) >= len(first) {
			same := true
			for i := range first {
				same = vAnd(same, vAnd(first[i].Num == res2[i].Num, first[i].Name == res2[i].Name))
			}
			vAssert(same, "C16.monotone")
		}
		vCover("cover.monotone")
	}
}
