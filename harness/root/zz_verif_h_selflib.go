package seccomp

import (
	"bufio"
	"bytes"
	"crypto/sha256"
	"encoding/binary"
	"errors"
	"fmt"
	"io"
	"math/bits"
	"path/filepath"
	"sort"
	"strconv"
	"strings"
	"sync/atomic"
)

func init() {
	vRegister("H_SelfLib", H_SelfLib)
}

type vSelfRec struct {
	key  uint8
	name string
}

type vSelfByName []vSelfRec

func (s vSelfByName) Len() int           { return len(s) }
func (s vSelfByName) Less(i, j int) bool { return s[i].name < s[j].name }
func (s vSelfByName) Swap(i, j int)      { s[i], s[j] = s[j], s[i] }

func vSelfHash(h uint64, s string) uint64 {
	for i := 0; i < len(s); i++ {
		h = (h ^ uint64(s[i])) * 1099511628211
	}
	return h
}

// H_SelfLib: translator validation of the library models (sorting through the
// real less/Swap functions, call-through of pure functions, sentinel errors,
// the %w chain): concrete inputs, observations compared engine vs native.
func H_SelfLib() {
	n := vParamInt("n")
	recs := make([]vSelfRec, n)
	ints := make([]int, n)
	for i := range recs {
		k := vU8("k" + strconv.Itoa(i))
		recs[i] = vSelfRec{key: k, name: "s" + strconv.Itoa(int(k%7)) + "-" + strconv.Itoa(i)}
		ints[i] = int(int8(k))
	}
	a := append([]vSelfRec(nil), recs...)
	sort.Slice(a, func(i, j int) bool { return a[i].key < a[j].key })
	b := append([]vSelfRec(nil), recs...)
	sort.SliceStable(b, func(i, j int) bool { return b[i].key%4 < b[j].key%4 })
	c := append(vSelfByName(nil), recs...)
	sort.Sort(c)
	sort.Ints(ints)
	h := uint64(14695981039346656037)
	for i := range a {
		h = vSelfHash(h, a[i].name+"|"+b[i].name+"|"+c[i].name+"|"+strconv.Itoa(ints[i]))
	}
	vObs("sorted", h)
	vObsBool("ints_sorted", sort.IntsAreSorted(ints))

	// pure functions on concrete arguments
	w := uint64(0)
	for i := range recs {
		w = w<<8 | uint64(recs[i].key)
	}
	vObs("ones", uint64(bits.OnesCount64(w)))
	vObs("lz", uint64(bits.LeadingZeros64(w)))
	vObs("rot", bits.RotateLeft64(w, 13))
	s := strings.ToUpper(recs[0].name) + "," + strings.Repeat("ab", int(recs[0].key%3)) + ",x_" + strconv.FormatUint(w, 16)
	parts := strings.Split(s, ",")
	vObs("parts", uint64(len(parts)))
	vObs("text", vSelfHash(7, strings.Join(parts, ";")+strings.ReplaceAll(s, "_", "-")+strings.TrimSuffix(s, "0")))
	u, err := strconv.ParseUint(strings.TrimPrefix(parts[len(parts)-1], "x_"), 16, 64)
	vObsBool("parse_ok", err == nil)
	vObs("parsed", u)
	_, err = strconv.ParseUint("zz", 10, 64)
	vObsBool("parse_err", err != nil)
	vObs("idx", uint64(int64(strings.Index(s, "-"))))

	// atomics (sequential semantics)
	var au atomic.Uint32
	au.Store(uint32(recs[0].key))
	au.Add(3)
	vObsBool("cas_hit", au.CompareAndSwap(uint32(recs[0].key)+3, 9))
	vObsBool("cas_miss", au.CompareAndSwap(7, 1))
	vObs("atomic_u32", uint64(au.Load()))
	var ab atomic.Bool
	ab.Store(recs[0].key%2 == 0)
	vObsBool("atomic_bool_old", ab.Swap(true))
	vObsBool("atomic_bool", ab.Load())
	var raw uint64
	atomic.StoreUint64(&raw, w)
	atomic.AddUint64(&raw, 5)
	vObsBool("raw_cas", atomic.CompareAndSwapUint64(&raw, w+5, w^1))
	vObs("raw_atomic", atomic.LoadUint64(&raw))

	// sentinel errors and the %w chain
	var e1 error = io.EOF
	vObsBool("eof_nonnil", e1 != nil)
	vObsBool("eof_is_eof", e1 == io.EOF)
	vObsBool("eof_is_unexpected", e1 == io.ErrUnexpectedEOF)
	vObsBool("toolong_is_eof", bufio.ErrTooLong == io.EOF)
	wrapped := fmt.Errorf("reading: %w", io.EOF)
	vObsBool("wrapped_is_eof", errors.Is(wrapped, io.EOF))
	vObsBool("wrapped_is_toolong", errors.Is(wrapped, bufio.ErrTooLong))
	vObsBool("wrapped_eq_eof", wrapped == io.EOF)

	// models added later: binary.Write into a Buffer, a one-shot digest of concrete bytes, call-through of
	// a variadic function, delete on a map
	var bb bytes.Buffer
	binary.Write(&bb, binary.LittleEndian, []uint32{uint32(w), uint32(w >> 32)})
	binary.Write(&bb, binary.BigEndian, struct {
		A uint16
		B uint8
		C uint8
	}{uint16(w), 7, uint8(w >> 8)})
	d := sha256.Sum256(bb.Bytes())
	vObs("buflen", uint64(bb.Len()))
	vObs("digest", uint64(d[0])|uint64(d[1])<<8|uint64(d[31])<<16)
	vObs("joined", vSelfHash(3, filepath.Join("a", s, "c")))
	dm := map[int]string{1: "x", 2: "y", int(w % 5): "z"}
	delete(dm, 2)
	delete(dm, 9)
	vObs("maplen", uint64(len(dm)))
}
