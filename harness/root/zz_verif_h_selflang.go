package seccomp

import (
	"bytes"
	"math/bits"
	"slices"
	"sort"
	"strings"
	"sync"
)

func init() { vRegister("H_SelfLang", H_SelfLang) }

// H_SelfLang: translator validation of language features and library objects
// that the code under test does not use today but a change might: generics,
// recover, method values, goroutines with channels (one schedule), sync.Pool,
// sync.Map, strings.Builder / bytes.Buffer, labelled loops, sync.Once with
// WaitGroup, select. Concrete inputs; observations compared engine vs native.

func vGenInvert[K comparable, V comparable](m map[K]V) map[V]K {
	out := make(map[V]K, len(m))
	for k, v := range m {
		out[v] = k
	}
	return out
}

func vGenMax[T ~uint32 | ~uint64](a, b T) T {
	if a > b {
		return a
	}
	return b
}

type vSelfLangT struct{ n uint32 }

func (s *vSelfLangT) add(k uint32) uint32 { s.n += k; return s.n }

func vSafeIndex(s []uint32, i int) (v uint32, ok bool) {
	defer func() {
		if recover() != nil {
			ok = false
		}
	}()
	return s[i], true
}

var vSelfLangPool = sync.Pool{New: func() interface{} { return new(vSelfLangT) }}
var vSelfLangMap sync.Map

func H_SelfLang() {
	step := vParamInt("step")
	x := vU32("x")
	switch step {
	case 0: // generics
		m := vGenInvert(map[string]uint32{"a": 1, "b": 2})
		vObs("gen", uint64(len(m[2]))+uint64(vGenMax(x, 7)))
	case 1: // recover
		v, ok := vSafeIndex([]uint32{1, 2, 3}, 5)
		vObs("rec", uint64(v))
		vObsBool("rec_ok", ok)
	case 2: // method value + closure
		s := &vSelfLangT{}
		f := s.add
		g := func(k uint32) uint32 { return f(k) + x }
		vObs("mv", uint64(g(3)))
	case 3: // goroutine + channel
		ch := make(chan uint32)
		go func() { ch <- x + 1 }()
		vObs("chan", uint64(<-ch))
	case 4: // sync.Pool
		p := vSelfLangPool.Get().(*vSelfLangT)
		p.n = x
		vSelfLangPool.Put(p)
		vObs("pool", uint64(p.n))
	case 5: // sync.Map
		vSelfLangMap.Store("k", x)
		v, _ := vSelfLangMap.Load("k")
		vObs("smap", uint64(v.(uint32)))
	case 6: // strings.Builder / bytes.Buffer
		var sb strings.Builder
		sb.WriteString("ab")
		sb.WriteByte('c')
		var bb bytes.Buffer
		bb.WriteString(sb.String())
		vObs("sb", uint64(bb.Len()))
	case 7: // labelled loops / goto
		n := 0
	outer:
		for i := 0; i < 4; i++ {
			for j := 0; j < 4; j++ {
				if j == 2 {
					continue outer
				}
				if i == 3 {
					break outer
				}
				n++
			}
		}
		vObs("lbl", uint64(n))
	case 9: // select, buffered channels, close, recover of an explicit panic value
		a, b := make(chan uint32, 2), make(chan uint32, 1)
		a <- x
		a <- x + 1
		close(a)
		n := uint32(0)
		for v := range a {
			n += v
		}
		select {
		case v := <-b:
			n += v
		default:
			n += 100
		}
		_, open := <-a
		vObs("sel", uint64(n))
		vObsBool("open", open)
		r := func() (out uint32) {
			defer func() {
				if e := recover(); e != nil {
					out = e.(uint32) + 1
				}
			}()
			panic(x)
		}()
		vObs("recval", uint64(r))
	case 10: // slices / sort / math/bits interpreted (symbolic where cheap)
		v := []uint32{x, 5, x ^ 3, 1}
		slices.Sort(v)
		i, found := slices.BinarySearch(v, 5)
		vObs("slices", uint64(v[0])<<32|uint64(v[3]))
		vObs("bs", uint64(i))
		vObsBool("bs_found", found)
		vObs("search", uint64(sort.Search(100, func(k int) bool { return uint32(k*k) >= x%1000 })))
		vObs("ones", uint64(bits.OnesCount32(x)))
		vObs("idx", uint64(slices.Index(v, 1)))
		vObsBool("contains", slices.Contains(v, x))
	case 8: // sync.Once + WaitGroup
		var once sync.Once
		var wg sync.WaitGroup
		n := uint32(0)
		wg.Add(1)
		go func() { defer wg.Done(); once.Do(func() { n = x }) }()
		wg.Wait()
		vObs("once", uint64(n))
	}
}
