package seccomp

import "golang.org/x/net/bpf"

func init() {
	vRegister("H_Reject", H_Reject)
}

// H_Reject: C07. An otherwise valid policy shape (as in H_Policy, all values
// symbolic) gets one defect injected at one position. The compiler must return
// an error and no program, and must not panic.
//
// Parameters (besides the shape): defect, dg (group), di (name/entry index),
// dk (condition index), dv (variant).
func H_Reject() {
	p := vPolicyFromParams()
	vSetEndian(false)
	pol := p.real()
	defect := vParamStr("defect")
	dg, di, dk, dv := vParamInt("dg"), vParamInt("di"), vParamInt("dk"), vParamInt("dv")

	switch defect {
	case "default":
		d := vU32("bad.def")
		vAssume(vNot(vIsKernelAction(d)))
		pol.DefaultAction = Action(d)
	case "nogroups":
		if dv == 0 {
			pol.Syscalls = nil
		} else {
			pol.Syscalls = []SyscallGroup{}
		}
	case "unkname":
		name := vEqStr("bad.name")
		_, known := p.info.SyscallNames[name]
		vAssume(!known)
		g := &pol.Syscalls[dg]
		if dv == 0 {
			if di < len(g.Names) {
				g.Names[di] = name
			} else {
				g.Names = append(g.Names, name)
			}
		} else {
			if di < len(g.NamesWithCondtions) {
				g.NamesWithCondtions[di].Name = name
			} else {
				g.NamesWithCondtions = append(g.NamesWithCondtions, NameWithConditions{Name: name, Conditions: ArgumentConditions{{Argument: 0, Operation: Equal, Value: vU64("bad.val")}}})
			}
		}
	case "dupname":
		g := &pol.Syscalls[dg]
		if di < len(g.Names) {
			// repeat an existing unconditional name, at the end or in front
			if dv == 0 {
				g.Names = append(g.Names, g.Names[di])
			} else {
				g.Names = append([]string{g.Names[di]}, g.Names...)
			}
		} else {
			n := vParamStr("freshname")
			g.Names = append(g.Names, n, n)
		}
	case "condboth":
		g := &pol.Syscalls[dg]
		if dv == 0 {
			// a name that has conditions is also listed without
			g.Names = append(g.Names, g.NamesWithCondtions[di].Name)
		} else {
			// a name listed without conditions also gets a conditional entry
			g.NamesWithCondtions = append(g.NamesWithCondtions, NameWithConditions{Name: g.Names[di], Conditions: ArgumentConditions{{Argument: 1, Operation: Equal, Value: vU64("bad.val")}}})
		}
	case "badarg":
		a := vU32("bad.arg")
		vAssume(a > 5)
		pol.Syscalls[dg].NamesWithCondtions[di].Conditions[dk].Argument = a
	case "badop":
		var op Operation
		switch dv {
		case 0:
			s := vEqStr("bad.op")
			for _, o := range []Operation{"Equal", "NotEqual", "GreaterThan", "LessThan", "GreaterOrEqual", "LessOrEqual", "BitsSet", "BitsNotSet"} {
				vAssume(s != string(o))
			}
			op = Operation(s)
		case 1:
			op = "equal"
		default:
			op = ""
		}
		pol.Syscalls[dg].NamesWithCondtions[di].Conditions[dk].Operation = op
	case "noconds":
		// a conditional entry WITHOUT conditions (nil, empty, or a fresh entry that never had any). The
		// statement neither demands rejection nor acceptance of it; what it demands is that no rule is
		// silently dropped: if the policy is accepted, the entry must match like the reference says
		// (a list with no conditions has all its conditions satisfied).
		g := &pol.Syscalls[dg]
		switch dv {
		case 0:
			g.NamesWithCondtions[di].Conditions = nil
			p.groups[dg].entries[di].conds = nil
		case 1:
			g.NamesWithCondtions[di].Conditions = ArgumentConditions{}
			p.groups[dg].entries[di].conds = nil
		default:
			n := vParamStr("freshname")
			g.NamesWithCondtions = append(g.NamesWithCondtions, NameWithConditions{Name: n})
			p.groups[dg].entries = append(p.groups[dg].entries, vEntry{name: n})
		}
	default:
		panic("H_Reject: unknown defect " + defect)
	}

	var prog []bpf.Instruction
	var err error
	code := vRun(func() { prog, err = pol.Assemble() })
	vAssert(code == 0, "C07.nopanic")
	if code != 0 {
		return
	}
	vCover("cover.returned")
	if defect == "noconds" {
		if err != nil {
			vAssert(prog == nil, "C07.noprog")
			vCover("cover.noconds_rejected")
			return
		}
		vCover("cover.noconds_accepted")
		raw, aerr := bpf.Assemble(prog)
		vAssert(aerr == nil, "C07.nodrop_encodes")
		if aerr != nil {
			return
		}
		ev := vNondetEvent()
		ret, done, _ := kmiRun(raw, ev.words(false))
		vObs("nr", uint64(ev.nr))
		vObs("ret", uint64(ret))
		vObs("want", uint64(refDecide(p, ev, true)))
		vKnownNoConds(ev.nr)
		vAssert(vAnd(done, ret == refDecide(p, ev, true)), "C07.nodrop")
		return
	}
	tag := "C07.reject." + defect
	if defect == "badop" {
		tag = "C07.noweaken"
	}
	vAssert(err != nil, tag)
	if err != nil {
		vAssert(prog == nil, "C07.noprog")
		vCover("cover.rejected")
	}
}

// known-finding predicate (active only while listed as open)
func vKnownNoConds(nr uint32) {}

