package seccomp

import "golang.org/x/net/bpf"

func init() {
	vRegister("H_DetAfter", H_DetAfter)
}

// H_DetAfter: C13 over a history. The result of compiling a policy must not
// depend on what the package compiled before (pools, caches, scratch state):
// the policy is compiled in a fresh package state (the reference), then
// ANOTHER policy is compiled - one that is rejected half-way, or a different
// valid one - and then the first policy again: same program, no error; and the
// reference a caller still holds must not have been overwritten meanwhile.
// Parameter "other": 1 an unknown name appended to the first group (rejected
// after its valid names were processed), 2 the first name of the first group
// twice (rejected as duplicate), 3 the same groups in reverse order with the
// actions swapped (valid, different).
func H_DetAfter() {
	p := vPolicyFromParams()
	vSetEndian(vParamInt("bo") == 1)
	ref, err0 := p.real().Assemble()
	if err0 != nil {
		return
	}
	snap := append([]bpf.Instruction(nil), ref...)

	other := p.real()
	switch vParamInt("other") {
	case 1:
		other.Syscalls[0].Names = append(append([]string(nil), other.Syscalls[0].Names...), "no_such_syscall_verif")
	case 2:
		if len(other.Syscalls[0].Names) == 0 {
			return
		}
		other.Syscalls[0].Names = append(append([]string(nil), other.Syscalls[0].Names...), other.Syscalls[0].Names[0])
	default:
		n := len(other.Syscalls)
		rev := make([]SyscallGroup, n)
		for i := range rev {
			rev[i] = other.Syscalls[n-1-i]
			rev[i].Action = other.Syscalls[i].Action
		}
		other.Syscalls = rev
	}
	var errOther error
	code := vRun(func() { _, errOther = other.Assemble() })
	vAssert(code == 0, "C13.other_nopanic")
	if code != 0 {
		return
	}
	if vParamInt("other") != 3 {
		vAssert(errOther != nil, "C13.other_rejected")
		vCover("cover.after_rejected")
	} else {
		vCover("cover.after_other")
	}

	var again []bpf.Instruction
	var err1 error
	code = vRun(func() { again, err1 = p.real().Assemble() })
	vAssert(code == 0, "C13.after_nopanic")
	if code != 0 {
		return
	}
	vAssert(err1 == nil, "C13.same_err_after_other")
	if err1 != nil {
		return
	}
	vObs("len0", uint64(len(ref)))
	vObs("len1", uint64(len(again)))
	vAssert(vSameProg(snap, again), "C13.same_after_other")
	vAssert(vSameProg(snap, ref), "C13.result_not_overwritten")
	vCover("assembled_after")
}
