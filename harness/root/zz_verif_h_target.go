package seccomp

import (
	"runtime"
	"strconv"

	"golang.org/x/net/bpf"
)

func init() {
	vRegister("H_Sig", H_Sig)
	vRegister("H_NoTable", H_NoTable)
	vRegister("H_Stubs", H_Stubs)
}

// H_Sig: C19(b). Compiles a concrete policy (concrete actions and operands
// derived from the parameters) for an explicit table and byte order and
// observes every raw instruction, so that the driver can compare the program
// across build targets.
func H_Sig() {
	p := vPolicyFromParamsConcrete()
	vSetEndian(vParamInt("bo") == 1)
	pol := p.real()
	prog, err := pol.Assemble()
	vAssert(err == nil, "C19.sig_compiles")
	if err != nil {
		return
	}
	raw, err := bpf.Assemble(prog)
	vAssert(err == nil, "C19.sig_encodes")
	if err != nil {
		return
	}
	vObs("n", uint64(len(raw)))
	h := uint64(1469598103934665603)
	for i, r := range raw {
		w := uint64(r.Op)<<48 | uint64(r.Jt)<<40 | uint64(r.Jf)<<32 | uint64(r.K)
		h = (h ^ w) * 1099511628211
		if i < 64 {
			vObs("i"+strconv.Itoa(i), w)
		}
	}
	vObs("hash", h)
	vCover("cover.sig")
}

// vPolicyFromParamsConcrete: as vPolicyFromParams with symact = 0 and operands
// fixed by position.
func vPolicyFromParamsConcrete() *vPolicy {
	p := &vPolicy{info: vArchInfo(vParamStr("arch")), def: kRetErrno}
	acts := []uint32{kRetAllow, kRetTrap, kRetKillProcess, kRetLog}
	ng := vParamInt("ngroups")
	k := uint64(0)
	for i := 0; i < ng; i++ {
		gp := "g" + strconv.Itoa(i)
		g := vGroup{action: acts[i%len(acts)]}
		nn := vParamInt(gp + ".nnames")
		for j := 0; j < nn; j++ {
			g.names = append(g.names, vParamStr(gp+".n"+strconv.Itoa(j)))
		}
		ne := vParamInt(gp + ".nent")
		for j := 0; j < ne; j++ {
			ep := gp + ".e" + strconv.Itoa(j)
			e := vEntry{name: vParamStr(ep + ".name")}
			nc := vParamInt(ep + ".nc")
			for c := 0; c < nc; c++ {
				cp := ep + ".c" + strconv.Itoa(c)
				a := vParamInt(cp + ".arg")
				if a < 0 {
					a = int(k % 6)
				}
				k++
				e.conds = append(e.conds, vCond{op: Operation(vParamStr(cp + ".op")), arg: uint32(a), val: 0xfedcba9876543210 ^ k*0x9e3779b97f4a7c15})
			}
			g.entries = append(g.entries, e)
		}
		p.groups = append(p.groups, g)
	}
	return p
}

// H_NoTable: C19(d) / C07. A policy without an explicit architecture is
// compiled for runtime.GOARCH: targets with a syscall table accept it and use
// that table, all others must fail with an error and no program.
func H_NoTable() {
	pol := &Policy{DefaultAction: ActionAllow, Syscalls: []SyscallGroup{{Names: []string{"read", "write"}, Action: ActionErrno}}}
	var prog []bpf.Instruction
	var err error
	code := vRun(func() { prog, err = pol.Assemble() })
	vAssert(code == 0, "C19.notable_nopanic")
	if code != 0 {
		return
	}
	vObsStr("goarch", runtime.GOARCH)
	want := ""
	switch runtime.GOARCH {
	case "amd64":
		want = "x86_64"
	case "386":
		want = "i386"
	case "arm":
		want = "arm"
	case "arm64":
		want = "aarch64"
	}
	if want == "" {
		vAssert(err != nil, "C19.unsupported_arch_error")
		vAssert(prog == nil, "C19.unsupported_arch_no_program")
		vCover("cover.notable.rejected")
		return
	}
	vAssert(err == nil, "C19.supported_arch_accepted")
	if err == nil {
		vAssert(pol.arch == vArchInfo(want), "C19.supported_arch_table")
		vCover("cover.notable.accepted")
	}
}

// H_Stubs: C19(c). On targets where the loader is a stub, it reports seccomp
// as unsupported and makes no call that leaves the library.
func H_Stubs() {
	if runtime.GOOS == "linux" || runtime.GOOS == "android" {
		vCover("cover.stubs.linux")
		return
	}
	f := Filter{NoNewPrivs: vBool("nnp"), Flag: FilterFlag(vU32("flag")), Policy: Policy{DefaultAction: Action(vU32("def")), Syscalls: []SyscallGroup{{Names: []string{"read"}, Action: Action(vU32("act"))}}}}
	vRecordExtern(true)
	sup := Supported()
	_ = LoadFilter(f)
	_ = SetNoNewPrivs()
	vRecordExtern(false)
	for i := 0; i < vExternCalls(); i++ {
		vObsStr("call"+strconv.Itoa(i), vExternCallAt(i))
	}
	vAssert(!sup, "C19.stub_unsupported")
	vAssert(vExternCalls() == 0, "C19.stub_silent")
	vCover("cover.stubs.other")
}
