package seccomp

import (
	"strconv"
	"strings"

	"golang.org/x/net/bpf"
)

func init() {
	vRegister("H_Policy", H_Policy)
	vRegister("H_Cond", H_Cond)
	vRegister("H_Lemma", H_Lemma)
}

// vWants reports whether obligations of property id are wanted by this run
// (parameter "props": space-separated ids; empty = all).
func vWants(id string) bool {
	ps := vParamStr("props")
	return ps == "" || strings.Contains(ps, id)
}

// vCompile runs the real compiler and the real raw encoder.
func vCompile(pol *Policy) (prog []bpf.Instruction, raw []bpf.RawInstruction, err error, rawErr error, code int) {
	code = vRun(func() {
		prog, err = pol.Assemble()
		if err == nil {
			raw, rawErr = bpf.Assemble(prog)
		}
	})
	return
}

// H_Policy: one policy shape (parameters), all values symbolic. Obligations
// for C01/C03 (decision), C04 (foreign arch, x32), C05 (validity, return set),
// C07 (acceptance of valid policies).
func H_Policy() {
	p := vPolicyFromParams()
	big := vParamInt("bo") == 1
	vSetEndian(big)
	ev := vNondetEvent()
	pol := p.real()

	prog, raw, err, rawErr, code := vCompile(pol)
	vAssert(code != 4, "C06.terminates")
	vAssert(code == 0, "C07.nopanic")
	if code != 0 {
		return
	}
	if err != nil {
		if vParamInt("anyarg") == 1 {
			// argument indices are unconstrained in this instance: a rejection is legitimate
			vCover("cover.rejected_anyarg")
			return
		}
		// every shape of this harness is free of the listed defects
		vAssert(false, "C07.accept")
		return
	}
	vAssert(prog != nil, "C07.accept_prog")
	vObs("len", uint64(len(prog)))
	if len(prog) > kMaxInsns {
		vCover("oversize")
		return
	}
	vCover("assembled")

	// C05: raw encoding, kernel verifier, closed return set
	vAssert(rawErr == nil, "C05.encodes")
	if rawErr != nil {
		return
	}
	vAssert(len(raw) == len(prog), "C05.encodes_len")
	valid := kmiCheck(raw)
	vAssert(valid, "C05.valid")
	if vConstFalse(valid) {
		return
	}
	x86 := uint32(p.info.ID) == 0xc000003e
	for i, ins := range raw {
		if !vWants("C05") {
			break
		}
		if ins.Op == 0x06 {
			in := ins.K == vEnc(p.def)
			for _, g := range p.groups {
				in = vOr(in, ins.K == vEnc(g.action))
			}
			if x86 {
				in = vOr(in, ins.K == kRetErrno|kENOSYS)
			}
			if !vIsTrue(in) {
				vAssert(in, "C05.retset@"+strconv.Itoa(i))
			}
		} else if ins.Op == 0x16 {
			vAssert(false, "C05.retset_reta@"+strconv.Itoa(i))
		}
	}

	// decision
	ret, done, argLoad := kmiRun(raw, ev.words(big))
	vAssert(done, "C05.returns")
	want := refDecide(p, ev, vParamInt("split") == 1)
	vObs("ret", uint64(ret))
	vObs("want", uint64(want))

	foreign := ev.arch != uint32(p.info.ID)
	if vWants("C04") {
		vAssert(vImplies(foreign, ret == vEnc(p.def)), "C04.foreign")
		vAssert(vImplies(foreign, vNot(argLoad)), "C04.foreign_no_arg_load")
		vReach(foreign, "cover.foreign")
	}
	if x86 && vWants("C04") {
		x32 := vAnd(vNot(foreign), ev.nr >= kX32Bit)
		vAssert(vImplies(x32, ret == kRetErrno|kENOSYS), "C04.x32")
		vAssert(vImplies(x32, vNot(argLoad)), "C04.x32_no_arg_load")
		vReach(vAnd(vNot(foreign), ev.nr == 0x40000000), "cover.x32.low")
		vReach(vAnd(vNot(foreign), ev.nr == 0x3fffffff), "cover.x32.below")
	}
	inScope := vNot(foreign)
	if x86 {
		inScope = vAnd(inScope, ev.nr < kX32Bit)
	}
	tag := "C01.decision"
	if vParamInt("hascond") == 1 {
		tag = "C03.decision"
	}
	if !vWants(tag[:3]) {
		return
	}
	vKnownDecision(p, ev, ret, want)
	vAssert(vImplies(inScope, ret == want), tag)

	// vacuity witnesses: the decision taken by each group and by the default
	matched := false
	for i := range p.groups {
		m := p.groupMatches(&p.groups[i], ev, true)
		vReach(vAnd(inScope, vAnd(m, vNot(matched))), "cover.group"+strconv.Itoa(i))
		matched = vOr(matched, m)
	}
	vReach(vAnd(inScope, vNot(matched)), "cover.default")
}

// vKnownDecision declares the known-finding predicates for decision
// obligations (active only for findings listed as open in known_findings.json).
func vKnownDecision(p *vPolicy, ev vEvent, ret, want uint32) {}

func vIsTrue(b bool) bool { return vConstFalse(vNot(b)) }

// H_Cond: C02. One conditional entry with one or two conditions; operation,
// place and byte order are parameters; operand, argument index, event and
// actions are symbolic. The oracle is the 64-bit relation (vRel64).
func H_Cond() {
	op := Operation(vParamStr("op"))
	place := vParamInt("place") // 0 only, 1 first of two, 2 last of two
	big := vParamInt("bo") == 1
	vSetEndian(big)
	info := vArchInfo(vParamStr("arch"))

	arg := vU32("arg")
	vAssume(arg <= 5)
	val := vU64("val")
	def := vU32("def")
	vAssume(vIsKernelAction(def))
	act := vU32("act")
	vAssume(vEnc(act) != vEnc(def))
	if uint32(info.ID) == 0xc000003e {
		vAssume(vEnc(act) != kRetErrno|kENOSYS)
	}
	ev := vNondetEvent()

	name := vParamStr("name")
	conds := []vCond{{arg: arg, op: op, val: val}}
	// the companion condition is on another symbolic argument and is assumed satisfied
	if place != 0 {
		arg2 := vU32("arg2")
		vAssume(arg2 <= 5)
		val2 := vU64("val2")
		other := vCond{arg: arg2, op: "Equal", val: val2}
		vAssume(vArgOf(ev, arg2) == val2)
		if place == 1 {
			conds = []vCond{conds[0], other}
		} else {
			conds = []vCond{other, conds[0]}
		}
	}
	p := &vPolicy{info: info, def: def, groups: []vGroup{{action: act, entries: []vEntry{{name: name, conds: conds}}}}}
	pol := p.real()
	_, raw, err, rawErr, code := vCompile(pol)
	vAssert(code == 0, "C02.nopanic")
	if code != 0 {
		return
	}
	vAssert(vAnd(err == nil, rawErr == nil), "C02.accepted")
	if err != nil || rawErr != nil {
		return
	}
	valid := kmiCheck(raw)
	vAssert(valid, "C02.valid")
	if vConstFalse(valid) {
		return
	}
	vAssume(ev.arch == uint32(info.ID))
	vAssume(ev.nr == p.num(name))
	ret, done, _ := kmiRun(raw, ev.words(big))
	vAssert(done, "C02.returns")
	x := vArgOf(ev, arg)
	holds := vRel64(op, x, val)
	vObs("ret", uint64(ret))
	vObsBool("holds", holds)
	vAssert(vImplies(holds, ret == vEnc(act)), "C02.match")
	vAssert(vImplies(vNot(holds), ret == vEnc(def)), "C02.nomatch")
	vReach(holds, "cover.match")
	vReach(vNot(holds), "cover.nomatch")
	vReach(vAnd(holds, vAnd(uint32(x>>32) == uint32(val>>32), uint32(x) != uint32(val))), "cover.match.samehi")
	vReach(vAnd(vNot(holds), vAnd(uint32(x>>32) == uint32(val>>32), uint32(x) != uint32(val))), "cover.nomatch.samehi")

	// C02.words: the loads of this condition read exactly the two words that
	// section 3.1 prescribes for this byte order.
	for i, ins := range raw {
		if ins.Op != 0x20 {
			continue
		}
		k := ins.K
		if vIsTrue(k < 16) {
			continue
		}
		hiOff := 16 + 8*arg
		loOff := 16 + 8*arg
		if big {
			loOff += 4
		} else {
			hiOff += 4
		}
		okOff := vOr(k == hiOff, k == loOff)
		if place != 0 {
			arg2 := conds[2-place].arg
			h2, l2 := 16+8*arg2, 16+8*arg2
			if big {
				l2 += 4
			} else {
				h2 += 4
			}
			okOff = vOr(okOff, vOr(k == h2, k == l2))
		}
		vAssert(okOff, "C02.words@"+strconv.Itoa(i))
	}
}

// H_Lemma: vRel64 == vRelSplit for all 2^128 pairs, per operation.
func H_Lemma() {
	op := Operation(vParamStr("op"))
	x, v := vU64("x"), vU64("v")
	vAssert(vRel64(op, x, v) == vRelSplit(op, x, v), "C02.lemma")
	vReach(vRel64(op, x, v), "cover.lemma.true")
	vReach(vNot(vRel64(op, x, v)), "cover.lemma.false")
}
