package seccomp

// Oracles shared by the policy harnesses: the seccomp_data event, a model of
// the kernel's classic-BPF verifier and interpreter for seccomp (KMI), and the
// reference meaning of a policy (refDecide). Written in "predicated" style:
// no Go branch depends on a symbolic value; vIte/vAnd/vOr merge instead.

import (
	"encoding/binary"
	"strconv"

	"golang.org/x/net/bpf"

	"github.com/elastic/go-seccomp-bpf/arch"
)

// Kernel UAPI constants (linux/seccomp.h, asm-generic/errno-base.h); oracle
// side, deliberately not taken from the package under test.
const (
	kRetKillThread  = 0x00000000
	kRetKillProcess = 0x80000000
	kRetTrap        = 0x00030000
	kRetErrno       = 0x00050000
	kRetTrace       = 0x7ff00000
	kRetLog         = 0x7ffc0000
	kRetAllow       = 0x7fff0000
	kEPERM          = 1
	kENOSYS         = 38
	kX32Bit         = 0x40000000
	kMaxInsns       = 4096
)

// ---------------------------------------------------------------------------
// Event

type vEvent struct {
	nr, arch uint32
	ip       uint64
	a        [6]uint64
}

func vNondetEvent() vEvent {
	var e vEvent
	e.nr = vU32("ev.nr")
	e.arch = vU32("ev.arch")
	e.ip = vU64("ev.ip")
	for i := 0; i < 6; i++ {
		e.a[i] = vU64("ev.a" + strconv.Itoa(i))
	}
	return e
}

// words lays the event out as the 16 native-order 32-bit words of struct
// seccomp_data for the given byte order.
func (e vEvent) words(bigEndian bool) [16]uint32 {
	var w [16]uint32
	w[0] = e.nr
	w[1] = e.arch
	put := func(i int, v uint64) {
		lo, hi := uint32(v), uint32(v>>32)
		if bigEndian {
			w[i], w[i+1] = hi, lo
		} else {
			w[i], w[i+1] = lo, hi
		}
	}
	put(2, e.ip)
	for i := 0; i < 6; i++ {
		put(4+2*i, e.a[i])
	}
	return w
}

func vSetEndian(bigEndian bool) {
	if bigEndian {
		nativeEndian = binary.BigEndian
	} else {
		nativeEndian = binary.LittleEndian
	}
}

// ---------------------------------------------------------------------------
// KMI: kernel model

const (
	clsLD   = 0x00
	clsLDX  = 0x01
	clsST   = 0x02
	clsSTX  = 0x03
	clsALU  = 0x04
	clsJMP  = 0x05
	clsRET  = 0x06
	clsMISC = 0x07
)

// kmiAllowed is seccomp_check_filter's whitelist.
func kmiAllowed(op uint16) bool {
	switch op {
	case 0x20, // LD|W|ABS
		0x80, 0x81, // LD|W|LEN, LDX|W|LEN
		0x06, 0x16, // RET|K, RET|A
		0x04, 0x0c, 0x14, 0x1c, 0x24, 0x2c, 0x34, 0x3c, // ADD SUB MUL DIV (K,X)
		0x54, 0x5c, 0x44, 0x4c, 0xa4, 0xac, 0x64, 0x6c, 0x74, 0x7c, // AND OR XOR LSH RSH (K,X)
		0x84,       // NEG
		0x00, 0x01, // LD|IMM, LDX|IMM
		0x07, 0x87, // TAX, TXA
		0x60, 0x61, 0x02, 0x03, // LD|MEM, LDX|MEM, ST, STX
		0x05,                   // JA
		0x15, 0x1d, 0x35, 0x3d, 0x25, 0x2d, 0x45, 0x4d: // JEQ JGE JGT JSET (K,X)
		return true
	}
	return false
}

// kmiCheck models bpf_check_classic + seccomp_check_filter. The result can be
// symbolic only through the K operand of loads.
func kmiCheck(raw []bpf.RawInstruction) bool {
	n := len(raw)
	if n < 1 || n > kMaxInsns {
		return false
	}
	ok := true
	for pc := 0; pc < n; pc++ {
		ins := raw[pc]
		if !kmiAllowed(ins.Op) {
			return false
		}
		switch ins.Op {
		case 0x20:
			ok = vAnd(ok, vAnd(ins.K&3 == 0, ins.K < 64))
		case 0x34: // DIV K
			ok = vAnd(ok, ins.K != 0)
		case 0x64, 0x74: // LSH/RSH K
			ok = vAnd(ok, ins.K < 32)
		case 0x60, 0x61, 0x02, 0x03:
			ok = vAnd(ok, ins.K < 16)
		case 0x05:
			ok = vAnd(ok, ins.K < uint32(n-pc-1))
		case 0x15, 0x1d, 0x35, 0x3d, 0x25, 0x2d, 0x45, 0x4d:
			if pc+int(ins.Jt)+1 >= n || pc+int(ins.Jf)+1 >= n {
				return false
			}
		}
	}
	last := raw[n-1].Op
	if last != 0x06 && last != 0x16 {
		return false
	}
	return ok
}

func kmiUsesMem(raw []bpf.RawInstruction) bool {
	for _, ins := range raw {
		switch ins.Op {
		case 0x60, 0x61, 0x02, 0x03:
			return true
		}
	}
	return false
}

// kmiState is the merged machine state in front of one instruction.
type kmiState struct {
	reach []bool
	a, x  []uint32
	mem   [][16]uint32
	argLd bool // some reached load reads an argument word (offset >= 16)
}

func (s *kmiState) flow(j int, c bool, a, x uint32, m *[16]uint32) {
	if j >= len(s.reach) {
		return
	}
	s.a[j] = vIte32(c, a, s.a[j])
	s.x[j] = vIte32(c, x, s.x[j])
	if s.mem != nil {
		for k := 0; k < 16; k++ {
			s.mem[j][k] = vIte32(c, m[k], s.mem[j][k])
		}
	}
	s.reach[j] = vOr(s.reach[j], c)
}

// kmiRun evaluates a filter that passed kmiCheck on one event. It returns the
// 32-bit filter result, whether a return was reached, and whether any reached
// instruction loaded an argument word.
func kmiRun(raw []bpf.RawInstruction, w [16]uint32) (ret uint32, done bool, argLoad bool) {
	n := len(raw)
	s := &kmiState{reach: make([]bool, n+1), a: make([]uint32, n+1), x: make([]uint32, n+1)}
	if kmiUsesMem(raw) {
		s.mem = make([][16]uint32, n+1)
	}
	s.reach[0] = true
	var zeroMem [16]uint32
	for pc := 0; pc < n; pc++ {
		c := s.reach[pc]
		if vConstFalse(c) {
			continue
		}
		ins := raw[pc]
		a, x := s.a[pc], s.x[pc]
		m := &zeroMem
		if s.mem != nil {
			m = &s.mem[pc]
		}
		k := ins.K
		cls := ins.Op & 7
		switch cls {
		case clsRET:
			v := k
			if ins.Op == 0x16 {
				v = a
			}
			ret = vIte32(c, v, ret)
			done = vOr(done, c)
			continue
		case clsJMP:
			if ins.Op == 0x05 {
				s.flow(pc+1+int(vConcreteU32(k)), c, a, x, m)
				continue
			}
			src := k
			if ins.Op&0x08 != 0 {
				src = x
			}
			var cond bool
			switch ins.Op & 0xf0 {
			case 0x10:
				cond = a == src
			case 0x20:
				cond = a > src
			case 0x30:
				cond = a >= src
			case 0x40:
				cond = a&src != 0
			}
			s.flow(pc+1+int(ins.Jt), vAnd(c, cond), a, x, m)
			s.flow(pc+1+int(ins.Jf), vAnd(c, vNot(cond)), a, x, m)
			continue
		case clsLD, clsLDX:
			var v uint32
			switch ins.Op & 0xe0 {
			case 0x00: // IMM
				v = k
			case 0x20: // ABS
				for j := 0; j < 16; j++ {
					v = vIte32(k == uint32(4*j), w[j], v)
				}
				argLoad = vOr(argLoad, vAnd(c, k >= 16))
			case 0x60: // MEM
				for j := 0; j < 16; j++ {
					v = vIte32(k == uint32(j), m[j], v)
				}
			case 0x80: // LEN
				v = 64
			}
			if cls == clsLD {
				a = v
			} else {
				x = v
			}
		case clsST, clsSTX:
			v := a
			if cls == clsSTX {
				v = x
			}
			var nm [16]uint32
			for j := 0; j < 16; j++ {
				nm[j] = vIte32(k == uint32(j), v, m[j])
			}
			s.flow(pc+1, c, a, x, &nm)
			continue
		case clsALU:
			src := k
			if ins.Op&0x08 != 0 {
				src = x
			}
			switch ins.Op & 0xf0 {
			case 0x00:
				a += src
			case 0x10:
				a -= src
			case 0x20:
				a *= src
			case 0x30:
				// division by zero (X form) makes the filter return 0
				z := src == 0
				ret = vIte32(vAnd(c, z), 0, ret)
				done = vOr(done, vAnd(c, z))
				c = vAnd(c, vNot(z))
				a = vUDiv32(a, src)
			case 0x40:
				a |= src
			case 0x50:
				a &= src
			case 0x60:
				a = vShl32(a, src)
			case 0x70:
				a = vShr32(a, src)
			case 0x80:
				a = -a
			case 0xa0:
				a ^= src
			}
		case clsMISC:
			if ins.Op == 0x07 {
				x = a
			} else {
				a = x
			}
		}
		s.flow(pc+1, c, a, x, m)
	}
	return ret, done, argLoad
}

func vUDiv32(a, b uint32) uint32 {
	// b == 0 is handled by the caller; avoid a Go division panic natively.
	return a / vIte32(b == 0, 1, b)
}
func vShl32(a, n uint32) uint32 { return vIte32(n >= 32, 0, a<<(n&31)) }
func vShr32(a, n uint32) uint32 { return vIte32(n >= 32, 0, a>>(n&31)) }

// ---------------------------------------------------------------------------
// Reference meaning of a policy

type vCond struct {
	arg uint32
	op  Operation
	val uint64
}

type vEntry struct {
	name  string
	conds []vCond
}

type vGroup struct {
	names   []string
	entries []vEntry
	action  uint32
}

type vPolicy struct {
	info   *arch.Info
	def    uint32
	groups []vGroup
}

func vEnc(a uint32) uint32 { return vIte32(a == kRetErrno, kRetErrno|kEPERM, a) }

func vIsKernelAction(a uint32) bool {
	r := a == kRetKillThread
	for _, k := range []uint32{kRetKillProcess, kRetTrap, kRetErrno, kRetTrace, kRetLog, kRetAllow} {
		r = vOr(r, a == k)
	}
	return r
}

// vRel64 is the statement's wording: unsigned 64-bit relations.
func vRel64(op Operation, x, v uint64) bool {
	switch op {
	case "Equal":
		return x == v
	case "NotEqual":
		return x != v
	case "GreaterThan":
		return x > v
	case "LessThan":
		return x < v
	case "GreaterOrEqual":
		return x >= v
	case "LessOrEqual":
		return x <= v
	case "BitsSet":
		return x&v != 0
	case "BitsNotSet":
		return x&v == 0
	}
	panic("vRel64: unknown operation " + string(op))
}

// vRelSplit states the orderings on (hi, lo) halves; equal to vRel64 by the
// lemma H_Lemma proves on every run. Large shapes use it because solvers
// re-derive the 64-bit/32-bit correspondence per condition otherwise.
func vRelSplit(op Operation, x, v uint64) bool {
	xh, xl := uint32(x>>32), uint32(x)
	vh, vl := uint32(v>>32), uint32(v)
	switch op {
	case "GreaterThan":
		return vOr(xh > vh, vAnd(xh == vh, xl > vl))
	case "LessThan":
		return vOr(xh < vh, vAnd(xh == vh, xl < vl))
	case "GreaterOrEqual":
		return vOr(xh > vh, vAnd(xh == vh, xl >= vl))
	case "LessOrEqual":
		return vOr(xh < vh, vAnd(xh == vh, xl <= vl))
	case "Equal":
		return vAnd(xh == vh, xl == vl)
	case "NotEqual":
		return vOr(xh != vh, xl != vl)
	case "BitsSet":
		return vOr(xh&vh != 0, xl&vl != 0)
	case "BitsNotSet":
		return vAnd(xh&vh == 0, xl&vl == 0)
	}
	panic("vRelSplit: unknown operation " + string(op))
}

func vArgOf(ev vEvent, idx uint32) uint64 {
	var v uint64
	for i := 0; i < 6; i++ {
		v = vIte64(idx == uint32(i), ev.a[i], v)
	}
	return v
}

func (p *vPolicy) num(name string) uint32 {
	n, ok := p.info.SyscallNames[name]
	if !ok {
		panic("oracle: name not in table: " + name)
	}
	return uint32(n | p.info.SeccompMask)
}

// vGroupMatches reports whether group g lists the event.
func (p *vPolicy) groupMatches(g *vGroup, ev vEvent, split bool) bool {
	m := false
	for _, n := range g.names {
		m = vOr(m, ev.nr == p.num(n))
	}
	for _, e := range g.entries {
		em := ev.nr == p.num(e.name)
		for _, c := range e.conds {
			x := vArgOf(ev, c.arg)
			if split {
				em = vAnd(em, vRelSplit(c.op, x, c.val))
			} else {
				em = vAnd(em, vRel64(c.op, x, c.val))
			}
		}
		m = vOr(m, em)
	}
	return m
}

// refDecide is the meaning of a policy on an event (DESIGN.md 3.3).
func refDecide(p *vPolicy, ev vEvent, split bool) uint32 {
	res := vEnc(p.def)
	matched := false
	for i := range p.groups {
		g := &p.groups[i]
		m := p.groupMatches(g, ev, split)
		res = vIte32(vAnd(m, vNot(matched)), vEnc(g.action), res)
		matched = vOr(matched, m)
	}
	if uint32(p.info.ID) == 0xc000003e && p.info.SeccompMask == 0 {
		res = vIte32(ev.nr >= kX32Bit, kRetErrno|kENOSYS, res)
	}
	return vIte32(ev.arch != uint32(p.info.ID), vEnc(p.def), res)
}

// real builds the policy value handed to the compiler.
func (p *vPolicy) real() *Policy {
	pol := &Policy{DefaultAction: Action(p.def), arch: p.info}
	for _, g := range p.groups {
		sg := SyscallGroup{Action: Action(g.action)}
		for _, n := range g.names {
			sg.Names = append(sg.Names, n)
		}
		for _, e := range g.entries {
			nc := NameWithConditions{Name: e.name}
			for _, c := range e.conds {
				nc.Conditions = append(nc.Conditions, Condition{Argument: c.arg, Operation: c.op, Value: c.val})
			}
			sg.NamesWithCondtions = append(sg.NamesWithCondtions, nc)
		}
		pol.Syscalls = append(pol.Syscalls, sg)
	}
	return pol
}

// vArchInfo resolves the table under test by name without going through the
// code under test's lookup path.
func vArchInfo(name string) *arch.Info {
	switch name {
	case "x86_64":
		return arch.X86_64
	case "i386":
		return arch.I386
	case "arm":
		return arch.ARM
	case "aarch64":
		return arch.AARCH64
	case "x32":
		return arch.X32
	}
	panic("vArchInfo: " + name)
}

// vPolicyFromParams builds the policy shape described by the parameters:
//
//	arch, ngroups, g<i>.nnames, g<i>.n<j>, g<i>.nent, g<i>.e<j>.name,
//	g<i>.e<j>.nc, g<i>.e<j>.c<k>.op, g<i>.e<j>.c<k>.arg (-1 = symbolic)
//
// Group actions, the default action and all operands are symbolic. With
// symact = 0 the actions are the concrete parameters g<i>.act / def.
func vPolicyFromParams() *vPolicy {
	p := &vPolicy{info: vArchInfo(vParamStr("arch"))}
	symact := vParamInt("symact") != 0
	if symact {
		p.def = vU32("def")
		vAssume(vIsKernelAction(p.def))
	} else {
		p.def = uint32(vParamInt("def"))
	}
	ng := vParamInt("ngroups")
	for i := 0; i < ng; i++ {
		gp := "g" + strconv.Itoa(i)
		var g vGroup
		if symact {
			g.action = vU32(gp + ".act")
		} else {
			g.action = uint32(vParamInt(gp + ".act"))
		}
		nn := vParamInt(gp + ".nnames")
		for j := 0; j < nn; j++ {
			g.names = append(g.names, vParamStr(gp+".n"+strconv.Itoa(j)))
		}
		ne := vParamInt(gp + ".nent")
		for j := 0; j < ne; j++ {
			ep := gp + ".e" + strconv.Itoa(j)
			e := vEntry{name: vParamStr(ep + ".name")}
			nc := vParamInt(ep + ".nc")
			for k := 0; k < nc; k++ {
				cp := ep + ".c" + strconv.Itoa(k)
				c := vCond{op: Operation(vParamStr(cp + ".op"))}
				if a := vParamInt(cp + ".arg"); a < 0 {
					c.arg = vU32(cp + ".arg")
					if vParamInt("anyarg") != 1 {
						vAssume(c.arg <= 5)
					}
				} else {
					c.arg = uint32(a)
				}
				c.val = vU64(cp + ".val")
				e.conds = append(e.conds, c)
			}
			g.entries = append(g.entries, e)
		}
		p.groups = append(p.groups, g)
	}
	return p
}
