package seccomp

// Abstract instruction lists (C06-sym). Inside the engine these functions are
// intercepted: the list has a symbolic length and finitely many known
// positions. Natively the list is real.

import "golang.org/x/net/bpf"

var vAbsFiller bpf.Instruction

// vAbsInstrs returns a list of n copies of def.
func vAbsInstrs(n int, def bpf.Instruction) []bpf.Instruction {
	vAbsFiller = def
	s := make([]bpf.Instruction, n)
	for i := range s {
		s[i] = def
	}
	return s
}

// vAbsLive: positions stored from now on count as "added".
func vAbsLive(s []bpf.Instruction) {}

func vAbsNative(s []bpf.Instruction) []int {
	var idx []int
	for i, x := range s {
		if x != vAbsFiller {
			idx = append(idx, i)
		}
	}
	return idx
}

// vAbsCount/Idx/Guard/Added/Val enumerate the known positions of the list.
func vAbsCount(s []bpf.Instruction) int        { return len(vAbsNative(s)) }
func vAbsIdx(s []bpf.Instruction, i int) int   { return vAbsNative(s)[i] }
func vAbsGuard(s []bpf.Instruction, i int) bool { return true }
func vAbsVal(s []bpf.Instruction, i int) bpf.Instruction {
	return s[vAbsNative(s)[i]]
}

// natively "added" = what only the assembler can have put there: a long jump,
// or a return that is not one of the two final ones
func vAbsAdded(s []bpf.Instruction, i int) bool {
	k := vAbsNative(s)[i]
	switch s[k].(type) {
	case bpf.Jump:
		return true
	case bpf.RetConstant:
		return k < len(s)-2
	}
	return false
}
