//go:build linux

package seccomp

// Kernel-model validation (not a property check, native only): policies over
// harmless probe syscalls are really installed in child processes and probed
// with chosen register values; the kernel's answer must equal what the kernel
// model (KMI) and the reference decision say. See `verif selftest --kernel`.

import (
	"encoding/json"
	"fmt"
	"os"
	"os/exec"
	"runtime"
	"strconv"
	"syscall"

	"golang.org/x/net/bpf"

	"github.com/elastic/go-seccomp-bpf/arch"
)

type vKernelProbe struct {
	Name string    `json:"name"`
	X32  bool      `json:"x32"`
	Args [6]uint64 `json:"args"`
}

type vKernelCase struct {
	ID     string                 `json:"id"`
	Params map[string]interface{} `json:"params"`
	Flag   uint32                 `json:"flag"`
	Kill   bool                   `json:"kill"` // the last group kills the process
	Probes []vKernelProbe         `json:"probes"`
}

// vPolicyFromParamsKernel: as vPolicyFromParamsConcrete, but safe to live
// under: default allow, groups answer errno / allow (the last one
// kill_process if asked for).
func vPolicyFromParamsKernel(kill bool) *vPolicy {
	p := vPolicyFromParamsConcrete()
	p.info = arch.X86_64
	p.def = kRetAllow
	for i := range p.groups {
		if i%3 == 1 {
			p.groups[i].action = kRetAllow
		} else {
			p.groups[i].action = kRetErrno
		}
	}
	if kill && len(p.groups) > 0 {
		p.groups[len(p.groups)-1].action = kRetKillProcess
	}
	return p
}

func vKernelChild(c vKernelCase) {
	vReplay.Params = c.Params
	p := vPolicyFromParamsKernel(c.Kill)
	vSetEndian(false)
	pol := p.real()
	if err := LoadFilter(Filter{NoNewPrivs: true, Flag: FilterFlag(c.Flag), Policy: *pol}); err != nil {
		fmt.Println("CHILD-ERROR load:", err)
		os.Exit(3)
	}
	for i, pr := range c.Probes {
		nr := uintptr(p.info.SyscallNames[pr.Name])
		if pr.X32 {
			nr |= 0x40000000
		}
		_, _, e := syscall.RawSyscall6(nr, uintptr(pr.Args[0]), uintptr(pr.Args[1]), uintptr(pr.Args[2]), uintptr(pr.Args[3]), uintptr(pr.Args[4]), uintptr(pr.Args[5]))
		fmt.Printf("PROBE %d %d\n", i, int(e))
	}
	fmt.Println("CHILD-DONE")
	os.Exit(0)
}

// vKernelMain is called by the generated test; it prints VERIF-KERNEL lines.
func vKernelMain() {
	if js := os.Getenv("VERIF_KERNEL_CHILD"); js != "" {
		var c vKernelCase
		if err := json.Unmarshal([]byte(js), &c); err != nil {
			fmt.Println("CHILD-ERROR", err)
			os.Exit(3)
		}
		vKernelChild(c)
	}
	if ns := os.Getenv("VERIF_TSYNC_CHILD"); ns != "" {
		n, _ := strconv.Atoi(ns)
		vTsyncProbe(n)
	}
	path := os.Getenv("VERIF_KERNEL_CASES")
	if path == "" {
		return
	}
	if !Supported() {
		fmt.Println("VERIF-KERNEL-UNAVAILABLE seccomp is not supported here")
		return
	}
	// the thread-sync assumption, sampled
	for _, n := range []int{1, 4, 16, 64} {
		cmd := exec.Command(os.Args[0], "-test.run", "^TestVerifKernel$")
		cmd.Env = append(os.Environ(), "VERIF_TSYNC_CHILD="+strconv.Itoa(n), "VERIF_KERNEL_CASES=")
		out, _ := cmd.Output()
		for _, l := range splitLines(string(out)) {
			var total, unf int
			var late bool
			if k, _ := fmt.Sscanf(l, "TSYNC threads=%d unfiltered=%d late_thread_filtered=%t", &total, &unf, &late); k == 3 {
				fmt.Printf("VERIF-KERNEL-TSYNC n=%d threads=%d unfiltered=%d late=%v\n", n, total, unf, late)
				if unf != 0 || !late {
					fmt.Printf("VERIF-KERNEL-FAIL tsync assumption: n=%d %s\n", n, l)
				}
			}
		}
	}
	b, err := os.ReadFile(path)
	if err != nil {
		fmt.Println("VERIF-KERNEL-ERROR", err)
		return
	}
	var cases []vKernelCase
	if err := json.Unmarshal(b, &cases); err != nil {
		fmt.Println("VERIF-KERNEL-ERROR", err)
		return
	}
	probes, bad := 0, 0
	for _, c := range cases {
		vReplay.Params = c.Params
		p := vPolicyFromParamsKernel(c.Kill)
		vSetEndian(false)
		prog, err := p.real().Assemble()
		if err != nil {
			fmt.Println("VERIF-KERNEL-FAIL", c.ID, "does not compile:", err)
			bad++
			continue
		}
		raw, _ := bpf.Assemble(prog)
		// expectations from the model
		type exp struct {
			errno int
			kill  bool
		}
		var exps []exp
		for _, pr := range c.Probes {
			ev := vEvent{nr: uint32(p.info.SyscallNames[pr.Name]), arch: uint32(p.info.ID), a: pr.Args}
			if pr.X32 {
				ev.nr |= 0x40000000
			}
			ret, done, _ := kmiRun(raw, ev.words(false))
			want := refDecide(p, ev, false)
			if !done || ret != want {
				fmt.Printf("VERIF-KERNEL-FAIL %s model disagrees with reference: kmi=%#x ref=%#x\n", c.ID, ret, want)
				bad++
			}
			switch {
			case ret == kRetAllow:
				e := 0
				if pr.X32 {
					e = int(syscall.ENOSYS) // no x32 ABI in this kernel: the syscall itself answers ENOSYS
				}
				exps = append(exps, exp{errno: e})
			case ret&0xffff0000 == kRetErrno:
				exps = append(exps, exp{errno: int(ret & 0xffff)})
			case ret == kRetKillProcess:
				exps = append(exps, exp{kill: true})
			default:
				exps = append(exps, exp{errno: -1})
			}
		}
		js, _ := json.Marshal(c)
		// A disagreement counts only if it shows in three consecutive runs of the child: the child is a
		// Go program whose runtime makes syscalls of its own, so a single odd run proves nothing.
		var lastMsgs []string
		consistent := true
		for attempt := 0; attempt < 3; attempt++ {
			cmd := exec.Command(os.Args[0], "-test.run", "^TestVerifKernel$")
			cmd.Env = append(os.Environ(), "VERIF_KERNEL_CHILD="+string(js), "VERIF_KERNEL_CASES=")
			out, runErr := cmd.Output()
			got := map[int]int{}
			skip := false
			for _, l := range splitLines(string(out)) {
				var i, e int
				if n, _ := fmt.Sscanf(l, "PROBE %d %d", &i, &e); n == 2 {
					got[i] = e
				}
				if len(l) > 11 && l[:11] == "CHILD-ERROR" {
					// the filter could not be installed here: nothing to compare (not a verdict)
					fmt.Println("VERIF-KERNEL-SKIP", c.ID, l)
					skip = true
				}
			}
			if skip {
				lastMsgs = nil
				break
			}
			killed := false
			if ee, ok := runErr.(*exec.ExitError); ok {
				if ws, ok := ee.Sys().(syscall.WaitStatus); ok && ws.Signaled() && ws.Signal() == syscall.SIGSYS {
					killed = true
				}
			}
			var msgs []string
			for i, e := range exps {
				if e.kill {
					// the process must die of SIGSYS at this probe: no answer for it or any later one
					if _, answered := got[i]; answered || !killed {
						msgs = append(msgs, fmt.Sprintf("%s probe %d (%s %x): model says kill_process, kernel let it through (killed=%v)", c.ID, i, c.Probes[i].Name, c.Probes[i].Args, killed))
					}
					break
				}
				g, answered := got[i]
				if !answered || g != e.errno {
					msgs = append(msgs, fmt.Sprintf("%s probe %d (%s x32=%v %x): model says errno %d, kernel says %d (answered=%v)", c.ID, i, c.Probes[i].Name, c.Probes[i].X32, c.Probes[i].Args, e.errno, g, answered))
				}
			}
			lastMsgs = msgs
			if len(msgs) == 0 {
				consistent = false
				break
			}
		}
		probes += len(exps)
		if consistent && len(lastMsgs) > 0 {
			for _, m := range lastMsgs {
				fmt.Println("VERIF-KERNEL-FAIL " + m + " [3 of 3 runs]")
				bad++
			}
		}
	}
	fmt.Println("VERIF-KERNEL-SUMMARY cases=" + strconv.Itoa(len(cases)) + " probes=" + strconv.Itoa(probes) + " failures=" + strconv.Itoa(bad))
}

func splitLines(s string) []string {
	var out []string
	cur := ""
	for _, r := range s {
		if r == '\n' {
			out = append(out, cur)
			cur = ""
		} else {
			cur += string(r)
		}
	}
	if cur != "" {
		out = append(out, cur)
	}
	return out
}

// vTsyncProbe (child process): the kernel-side assumption of C10, sampled.
// N OS threads are running / sleeping / blocked in a syscall / being created
// while LoadFilter(TSYNC) runs; after it returned nil every thread listed in
// /proc/self/task must carry the filter (Seccomp: 2), and a thread created
// afterwards too.
func vTsyncProbe(n int) {
	stop := make(chan struct{})
	ready := make(chan struct{}, n)
	for i := 0; i < n; i++ {
		kind := i % 3
		go func() {
			runtime.LockOSThread()
			ready <- struct{}{}
			switch kind {
			case 0: // spinning
				for {
					select {
					case <-stop:
						return
					default:
					}
				}
			case 1: // blocked in a syscall
				var ts syscall.Timespec
				ts.Sec = 3
				syscall.Nanosleep(&ts, nil)
			default: // sleeping in the runtime
				<-stop
			}
		}()
	}
	for i := 0; i < n; i++ {
		<-ready
	}
	// threads being created while the load runs
	go func() {
		for i := 0; i < 8; i++ {
			go func() { runtime.LockOSThread(); <-stop }()
		}
	}()
	pol := Policy{DefaultAction: ActionAllow, Syscalls: []SyscallGroup{{Names: []string{"getppid"}, Action: ActionErrno}}}
	if err := LoadFilter(Filter{NoNewPrivs: true, Flag: FilterFlagTSync, Policy: pol}); err != nil {
		fmt.Println("CHILD-ERROR load:", err)
		os.Exit(3)
	}
	late := make(chan bool, 1)
	go func() {
		runtime.LockOSThread()
		_, _, e := syscall.RawSyscall(syscall.SYS_GETPPID, 0, 0, 0)
		late <- e == syscall.EPERM
	}()
	lateOK := <-late
	ents, _ := os.ReadDir("/proc/self/task")
	bad, total := 0, 0
	for _, e := range ents {
		b, err := os.ReadFile("/proc/self/task/" + e.Name() + "/status")
		if err != nil {
			continue // thread exited meanwhile
		}
		total++
		mode := ""
		for _, l := range splitLines(string(b)) {
			if len(l) > 8 && l[:8] == "Seccomp:" {
				mode = l[8:]
			}
		}
		ok := false
		for _, ch := range mode {
			if ch == '2' {
				ok = true
			}
		}
		if !ok {
			bad++
		}
	}
	fmt.Printf("TSYNC threads=%d unfiltered=%d late_thread_filtered=%v\n", total, bad, lateOK)
	close(stop)
	os.Exit(0)
}
