package seccomp

import (
	"strconv"

	"golang.org/x/net/bpf"

	"github.com/elastic/go-seccomp-bpf/arch"
)

func init() {
	vRegister("H_Det", H_Det)
	vRegister("H_Writes", H_Writes)
	vRegister("H_Text", H_Text)
	vRegister("H_TextAfter", H_TextAfter)
	vRegister("H_Pure", H_Pure)
}

func vSameProg(a, b []bpf.Instruction) bool {
	if len(a) != len(b) {
		return false
	}
	same := true
	for i := range a {
		same = vAnd(same, a[i] == b[i])
	}
	return same
}

// H_Det: C13(a). Compiling equal policies yields identical instruction
// sequences: the same value twice, a deep-equal copy, and under the opposite
// iteration order of every map the compiler ranges over.
func H_Det() {
	p := vPolicyFromParams()
	vSetEndian(vParamInt("bo") == 1)
	pol1, pol2 := p.real(), p.real()
	vMapOrder("asc")
	prog1, err1 := pol1.Assemble()
	again, err1b := pol1.Assemble()
	vMapOrder("desc")
	prog2, err2 := pol2.Assemble()
	vMapOrder("asc")
	vAssert(vAnd((err1 == nil) == (err2 == nil), (err1 == nil) == (err1b == nil)), "C13.same_err")
	if err1 != nil || err2 != nil || err1b != nil {
		return
	}
	vCover("assembled")
	vObs("len1", uint64(len(prog1)))
	vObs("len2", uint64(len(prog2)))
	vAssert(vSameProg(prog1, again), "C13.same_repeat")
	vAssert(vSameProg(prog1, prog2), "C13.same_copy")
}

const vSentinel = "verif-sentinel"

// vSparePolicy builds the policy with spare capacity behind every slice; the
// spare slots hold sentinels.
func vSparePolicy(p *vPolicy) *Policy {
	pol := &Policy{DefaultAction: Action(p.def), arch: p.info}
	groups := make([]SyscallGroup, len(p.groups), len(p.groups)+2)
	for gi, g := range p.groups {
		sg := SyscallGroup{Action: Action(g.action)}
		sg.Names = make([]string, len(g.names), len(g.names)+3)
		copy(sg.Names, g.names)
		spare := sg.Names[:cap(sg.Names)]
		for i := len(g.names); i < len(spare); i++ {
			spare[i] = vSentinel
		}
		sg.NamesWithCondtions = make([]NameWithConditions, len(g.entries), len(g.entries)+2)
		for ei, e := range g.entries {
			conds := make(ArgumentConditions, len(e.conds), len(e.conds)+2)
			for ci, c := range e.conds {
				conds[ci] = Condition{Argument: c.arg, Operation: c.op, Value: c.val}
			}
			sc := conds[:cap(conds)]
			for i := len(e.conds); i < len(sc); i++ {
				sc[i] = Condition{Argument: 77, Operation: vSentinel, Value: 77}
			}
			sg.NamesWithCondtions[ei] = NameWithConditions{Name: e.name, Conditions: conds}
		}
		se := sg.NamesWithCondtions[:cap(sg.NamesWithCondtions)]
		for i := len(g.entries); i < len(se); i++ {
			se[i] = NameWithConditions{Name: vSentinel}
		}
		groups[gi] = sg
	}
	sgs := groups[:cap(groups)]
	for i := len(p.groups); i < len(sgs); i++ {
		sgs[i] = SyscallGroup{Names: []string{vSentinel}, Action: 77}
	}
	pol.Syscalls = groups
	return pol
}

// vUnchanged compares the caller's policy (including the spare capacity) with
// its description.
func vUnchanged(pol *Policy, p *vPolicy) bool {
	ok := vAnd(uint32(pol.DefaultAction) == p.def, pol.arch == p.info)
	if len(pol.Syscalls) != len(p.groups) || cap(pol.Syscalls) != len(p.groups)+2 {
		return false
	}
	sgs := pol.Syscalls[:cap(pol.Syscalls)]
	for i := len(p.groups); i < len(sgs); i++ {
		if len(sgs[i].Names) != 1 || sgs[i].Names[0] != vSentinel || sgs[i].Action != 77 {
			return false
		}
	}
	for gi, g := range p.groups {
		sg := pol.Syscalls[gi]
		ok = vAnd(ok, uint32(sg.Action) == g.action)
		if sg.arch != nil {
			return false
		}
		if len(sg.Names) != len(g.names) || cap(sg.Names) != len(g.names)+3 || len(sg.NamesWithCondtions) != len(g.entries) || cap(sg.NamesWithCondtions) != len(g.entries)+2 {
			return false
		}
		names := sg.Names[:cap(sg.Names)]
		for i := range names {
			want := vSentinel
			if i < len(g.names) {
				want = g.names[i]
			}
			if names[i] != want {
				return false
			}
		}
		ents := sg.NamesWithCondtions[:cap(sg.NamesWithCondtions)]
		for ei := range ents {
			if ei >= len(g.entries) {
				if ents[ei].Name != vSentinel || len(ents[ei].Conditions) != 0 {
					return false
				}
				continue
			}
			e := g.entries[ei]
			if ents[ei].Name != e.name || len(ents[ei].Conditions) != len(e.conds) || cap(ents[ei].Conditions) != len(e.conds)+2 {
				return false
			}
			cs := ents[ei].Conditions[:cap(ents[ei].Conditions)]
			for ci := range cs {
				if ci >= len(e.conds) {
					if cs[ci].Operation != vSentinel || cs[ci].Argument != 77 || cs[ci].Value != 77 {
						return false
					}
					continue
				}
				c := e.conds[ci]
				if cs[ci].Operation != c.op {
					return false
				}
				ok = vAnd(ok, vAnd(cs[ci].Argument == c.arg, cs[ci].Value == c.val))
			}
		}
	}
	return ok
}

// H_Writes: C13(b),(c). The caller's policy is built with spare capacity in
// every slice; a second Policy value shares all its slices. Compiling one of
// them (natively: both, concurrently, under the race detector) must not write
// to anything the caller can reach nor to any package-level state.
func H_Writes() {
	p := vPolicyFromParams()
	vSetEndian(false)
	pol := vSparePolicy(p)
	twin := *pol // shares every slice
	vShareRoots(pol, &twin)
	vMonitor(true)
	var e1, e2 error
	vConcurrently(func() { _, e1 = pol.Assemble() }, func() { _, e2 = twin.Assemble() })
	vMonitor(false)
	vCover("compiled")
	for i := 0; i < vSharedWrites(); i++ {
		vObsStr("write"+strconv.Itoa(i), vSharedWriteAt(i))
	}
	vAssert(vSharedWrites() == 0, "C13.race")
	vAssert((e1 == nil) == (e2 == nil), "C13.twin_err")
	vAssert(vUnchanged(pol, p), "C13.unchanged")
	vAssert(vUnchanged(&twin, p), "C13.unchanged_twin")
}

// H_Pure: C13(c). Lookups and text conversions write no package-level state.
func H_Pure() {
	s := vEqStr("s")
	a := Action(vU32("a"))
	f := FilterFlag(vU32("f"))
	vMonitor(true)
	vConcurrently(func() {
		arch.GetInfo(s)
		_ = a.String()
		a.MarshalText()
		_ = f.String()
		f.MarshalText()
		var a2 Action
		a2.Unpack(s)
		var o Operation
		o.Unpack(s)
	}, func() {
		arch.GetInfo("amd64")
		_ = ActionErrno.String()
		_ = (FilterFlagLog | FilterFlagTSync).String()
		var a2 Action
		a2.Unpack("allow")
		var o Operation
		o.Unpack("equal")
	})
	vMonitor(false)
	vCover("ran")
	for i := 0; i < vSharedWrites(); i++ {
		vObsStr("write"+strconv.Itoa(i), vSharedWriteAt(i))
	}
	vAssert(vSharedWrites() == 0, "C13.race")
}

// H_Text: C13(d). The text form of a flag / action value is a function of the
// value: the same under every iteration order of the name maps.
func H_Text() {
	f := FilterFlag(vU32("f"))
	a := Action(vU32("a"))
	vMapOrder("asc")
	f1, a1 := f.String(), a.String()
	vMapOrder("desc")
	sameF, sameA := true, true
	for i := 0; i < vNativeRepeat(); i++ {
		sameF = vAnd(sameF, f.String() == f1)
		sameA = vAnd(sameA, a.String() == a1)
	}
	vMapOrder("asc")
	vObs("f", uint64(f))
	vAssert(sameF, "C13.text_flag")
	vAssert(sameA, "C13.text_action")
	vCover("cover.text")
	vReach(f == 3, "cover.text.both_flags")
}

// H_TextAfter: C13(d) with a history. The text of a flag / action value is a function of the value:
// the same before and after the conversions of OTHER values in the same process (a memo, a reused
// buffer or lazily built table that an earlier conversion leaves behind must not show).
func H_TextAfter() {
	f, g := FilterFlag(vU32("f")), FilterFlag(vU32("g"))
	a, b := Action(vU32("a")), Action(vU32("b"))
	f0, a0 := f.String(), a.String()
	fm0, fe0 := f.MarshalText()
	am0, ae0 := a.MarshalText()
	// the other values, every conversion
	_ = g.String()
	g.MarshalText()
	_ = b.String()
	b.MarshalText()
	var u Action
	u.Unpack(b.String())
	f1, a1 := f.String(), a.String()
	fm1, fe1 := f.MarshalText()
	am1, ae1 := a.MarshalText()
	vObs("f", uint64(f))
	vObs("g", uint64(g))
	vAssert(f1 == f0, "C13.text_flag_history")
	vAssert(a1 == a0, "C13.text_action_history")
	vAssert(string(fm1) == string(fm0) && (fe0 == nil) == (fe1 == nil), "C13.marshal_flag_history")
	vAssert(string(am1) == string(am0) && (ae0 == nil) == (ae1 == nil), "C13.marshal_action_history")
	vCover("cover.text_history")
}
