package seccomp

import (
	"strconv"

	"golang.org/x/net/bpf"
)

func init() {
	vRegister("H_Label", H_Label)
}

// Abstract label-level program: positions are indices into the sequence of
// builder calls that emit an instruction; no assembler involved.
type vAbsOp struct {
	kind   int // 0 load, 1 jump, 2 ret
	word   int // load: index of the 32-bit word of the input record
	cond   bpf.JumpTest
	val    uint32
	tT, tF int // jump: abstract target positions
	ret    uint32
}

func vAbsCond(c bpf.JumpTest, a, v uint32) bool {
	switch c {
	case bpf.JumpEqual:
		return a == v
	case bpf.JumpNotEqual:
		return a != v
	case bpf.JumpGreaterThan:
		return a > v
	case bpf.JumpLessThan:
		return a < v
	case bpf.JumpGreaterOrEqual:
		return a >= v
	case bpf.JumpLessOrEqual:
		return a <= v
	case bpf.JumpBitsSet:
		return a&v != 0
	case bpf.JumpBitsNotSet:
		return a&v == 0
	}
	panic("vAbsCond")
}

// vAbsRun executes the label-level program on an input, predicated.
func vAbsRun(ops []vAbsOp, w [16]uint32) (ret uint32, done bool) {
	n := len(ops)
	reach := make([]bool, n+1)
	acc := make([]uint32, n+1)
	reach[0] = true
	flow := func(j int, c bool, a uint32) {
		acc[j] = vIte32(c, a, acc[j])
		reach[j] = vOr(reach[j], c)
	}
	for q := 0; q < n; q++ {
		c := reach[q]
		if vConstFalse(c) {
			continue
		}
		op := ops[q]
		switch op.kind {
		case 0:
			flow(q+1, c, w[op.word])
		case 1:
			t := vAbsCond(op.cond, acc[q], op.val)
			flow(op.tT, vAnd(c, t), acc[q])
			flow(op.tF, vAnd(c, vNot(t)), acc[q])
		case 2:
			ret = vIte32(c, op.ret, ret)
			done = vOr(done, c)
		}
	}
	return ret, done
}

var vLabelConds = []bpf.JumpTest{bpf.JumpEqual, bpf.JumpGreaterThan, bpf.JumpBitsSet, bpf.JumpNotEqual, bpf.JumpLessOrEqual, bpf.JumpBitsNotSet, bpf.JumpLessThan, bpf.JumpGreaterOrEqual}

// H_Label: C06. A label program r0 J1 r1 ... JK rK ret ret is built through
// the public builder API and, from the same description, as an abstract
// label-level program. For all inputs and all jump operands the assembled
// instruction list must behave like the label-level program.
//
// Parameters: K; run<i> (0..K) lengths of the load runs; j<k>.t / j<k>.f
// target of each branch ("next", "J<m>", "R<m>", "ret1", "ret2");
// j<k>.cond index into vLabelConds; mode 0 = one label per branch, 1 = one
// label per distinct target.
func H_Label() {
	vSetEndian(false)
	K := vParamInt("K")
	runs := make([]int, K+1)
	for i := 0; i <= K; i++ {
		runs[i] = vParamInt("run" + strconv.Itoa(i))
	}
	mode := vParamInt("mode")

	// abstract positions
	pos := 0
	jpos := make([]int, K+1)   // jpos[k] position of J_k (1-based)
	rstart := make([]int, K+1) // start of run i
	rstart[0] = 0
	pos = runs[0]
	for k := 1; k <= K; k++ {
		jpos[k] = pos
		pos++
		rstart[k] = pos
		pos += runs[k]
	}
	ret1, ret2 := pos, pos+1
	total := pos + 2

	target := func(k int, s string) int {
		switch {
		case s == "next":
			return jpos[k] + 1
		case s == "ret1":
			return ret1
		case s == "ret2":
			return ret2
		case s[0] == 'J':
			m, _ := strconv.Atoi(s[1:])
			return jpos[m]
		case s[0] == 'R':
			m, _ := strconv.Atoi(s[1:])
			return rstart[m]
		}
		panic("bad target " + s)
	}

	// abstract program
	ops := make([]vAbsOp, total)
	wordOf := func(q int) int { return 4 + q%12 }
	for q := 0; q < total; q++ {
		ops[q] = vAbsOp{kind: 0, word: wordOf(q)}
	}
	for k := 1; k <= K; k++ {
		ks := strconv.Itoa(k)
		ops[jpos[k]] = vAbsOp{kind: 1, cond: vLabelConds[vParamInt("j"+ks+".cond")], val: vU32("j" + ks + ".val"),
			tT: target(k, vParamStr("j"+ks+".t")), tF: target(k, vParamStr("j"+ks+".f"))}
	}
	ops[ret1] = vAbsOp{kind: 2, ret: 0x7fff0011}
	ops[ret2] = vAbsOp{kind: 2, ret: 0x00030022}

	// real builder, driven by the same description
	p := NewProgram()
	type pend struct {
		at    int
		label Label
	}
	var pending []pend
	shared := map[int]Label{}
	labelFor := func(at int) Label {
		if mode == 1 {
			if l, ok := shared[at]; ok {
				return l
			}
		}
		l := p.NewLabel()
		if mode == 1 {
			shared[at] = l
		}
		pending = append(pending, pend{at: at, label: l})
		return l
	}
	for q := 0; q < total; q++ {
		for _, pd := range pending {
			if pd.at == q {
				p.SetLabel(pd.label)
			}
		}
		op := ops[q]
		switch op.kind {
		case 0:
			arg := uint32((op.word - 4) / 2)
			if (op.word-4)%2 == 1 {
				p.LdHi(arg)
			} else {
				p.LdLo(arg)
			}
		case 1:
			lt := labelFor(op.tT)
			lf := labelFor(op.tF)
			p.JmpIf(op.cond, op.val, lt, lf)
		case 2:
			p.Ret(Action(op.ret))
		}
	}

	var prog []bpf.Instruction
	var raw []bpf.RawInstruction
	var err, rawErr error
	code := vRun(func() {
		prog, err = p.Assemble()
		if err == nil {
			raw, rawErr = bpf.Assemble(prog)
		}
	})
	vAssert(code != 4, "C06.terminates")
	vAssert(code == 0, "C06.nopanic")
	if code != 0 {
		return
	}
	vAssert(err == nil, "C06.noerr")
	if err != nil {
		return
	}
	vAssert(rawErr == nil, "C06.encodes")
	if rawErr != nil {
		return
	}
	vObs("len", uint64(len(raw)))
	vObs("abslen", uint64(total))
	if len(raw) > total {
		vCover("cover.bridged")
	}
	valid := kmiCheck(raw)
	vAssert(valid, "C06.valid")
	if vConstFalse(valid) {
		return
	}
	vCover("assembled")
	var w [16]uint32
	for i := 0; i < 16; i++ {
		w[i] = vU32("w" + strconv.Itoa(i))
	}
	got, done, _ := kmiRun(raw, w)
	want, wdone := vAbsRun(ops, w)
	vAssert(wdone, "C06.abs_returns") // sanity of the harness itself
	vAssert(done, "C06.returns")
	vObs("got", uint64(got))
	vObs("want", uint64(want))
	vAssert(got == want, "C06.sem")
	vReach(want == 0x7fff0011, "cover.ret1")
	vReach(want == 0x00030022, "cover.ret2")
}
