package seccomp

import (
	"bytes"
	"encoding/binary"

	"golang.org/x/net/bpf"
)

func init() {
	vRegister("H_SelfKMI", H_SelfKMI)
}

// H_SelfKMI: translator and kernel-model validation (not a property check).
// A concrete policy (as H_Sig) is compiled and run on a concrete event by the
// kernel model; the observations must be the same inside the engine and in
// the native build. Natively the result is also compared with x/net/bpf's VM
// (on the big-endian layout, the only one that VM can read) and with the
// reference decision.
func H_SelfKMI() {
	p := vPolicyFromParamsConcrete()
	big := vParamInt("bo") == 1
	vSetEndian(big)
	pol := p.real()
	prog, err := pol.Assemble()
	vAssert(err == nil, "SELF.compiles")
	if err != nil {
		return
	}
	raw, err := bpf.Assemble(prog)
	vAssert(err == nil, "SELF.encodes")
	if err != nil {
		return
	}
	vAssert(kmiCheck(raw), "SELF.valid")
	ev := vNondetEvent()
	ret, done, _ := kmiRun(raw, ev.words(big))
	want := refDecide(p, ev, false)
	want2 := refDecide(p, ev, true)
	vObs("len", uint64(len(raw)))
	vObs("ret", uint64(ret))
	vObs("want", uint64(want))
	vObsBool("done", done)
	vAssert(done, "SELF.returns")
	vAssert(ret == want, "SELF.kmi_is_ref")
	vAssert(want == want2, "SELF.ref_split")
	if !vSymbolic() && big {
		// native only: x/net/bpf's VM on the big-endian record
		vm, err := bpf.NewVM(prog)
		if err != nil {
			vAssert(false, "SELF.vm_builds")
			return
		}
		type rec struct {
			NR   uint32
			Arch uint32
			IP   uint64
			Args [6]uint64
		}
		buf := new(bytes.Buffer)
		binary.Write(buf, binary.BigEndian, rec{ev.nr, ev.arch, ev.ip, ev.a})
		got, err := vm.Run(buf.Bytes())
		vAssert(err == nil && uint32(got) == ret, "SELF.kmi_is_vm")
	}
}
