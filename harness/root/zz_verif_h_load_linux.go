//go:build linux

package seccomp

import (
	"strconv"
	"syscall"
	"unsafe"

	"golang.org/x/net/bpf"
)

func init() {
	vRegister("H_Load", H_Load)
	vRegister("H_Supported", H_Supported)
}

// Oracle constants (asm/unistd_64.h, linux/seccomp.h, linux/prctl.h, errno.h)
const (
	kNRSeccompAMD64 = 317
	kNRPrctlAMD64   = 157
	kPRSetNNP       = 38
	kSetModeStrict  = 0
	kSetModeFilter  = 1
	kFlagTSync      = 1
	kEINVAL         = 22
	kEACCES         = 13
)

// ---------------------------------------------------------------------------
// Kernel contract stub (DESIGN.md 3.4)

type vSysRecord struct {
	trap       uintptr
	a          [6]uintptr
	nargs      int
	tid        uint32
	epoch      int // lock epoch at the call (0 = goroutine not locked to its thread)
	r1         uintptr
	errno      syscall.Errno
	prog       []syscall.SockFilter // seccomp(SET_MODE_FILTER): the program the pointer argument denotes
	progLen    uint16
	nullPtr    bool
	nnpAtCall  bool // ghost: no_new_privs of the calling thread at the time of the call
	attachable bool
}

var (
	vSysTrace  []vSysRecord
	vNNPTid    uint32 // ghost: thread that has the no_new_privs bit (valid if vNNPSet)
	vNNPSet    bool
	vNNPAll    bool   // ghost: a thread-synchronising attach copied the bit to every thread
	vNNPEarlier bool  // ghost: the bit was set during an earlier call of the history (threads created since inherit it)
	vPrivSym   bool // ghost: process has CAP_SYS_ADMIN
	vLockEpochN int
	vLockDepthN int
)

// Thread locking is per goroutine: runtime.LockOSThread pins the goroutine
// that calls it, a goroutine started from it is not pinned.
var (
	vLockDepthG = map[int]int{}
	vLockEpochG = map[int]int{}
)

func vstubLockOSThread() {
	g := vGoID()
	if vLockDepthG[g] == 0 {
		vLockEpochN++
		vLockEpochG[g] = vLockEpochN
	}
	vLockDepthG[g]++
	vLockDepthN = vLockDepthG[g]
}

func vstubUnlockOSThread() {
	g := vGoID()
	if vLockDepthG[g] > 0 {
		vLockDepthG[g]--
	}
	vLockDepthN = vLockDepthG[g]
}

func vCurEpoch() int {
	g := vGoID()
	if vLockDepthG[g] > 0 {
		return vLockEpochG[g]
	}
	return 0
}

func vResetLocks() {
	vLockDepthG, vLockEpochG = map[int]int{}, map[int]int{}
	vLockDepthN, vLockEpochN = 0, 0
}

// vKernelAnswer draws (r1, errno) subject to Go's Syscall contract.
func vKernelAnswer(i int) (uintptr, syscall.Errno) {
	is := strconv.Itoa(i)
	r1 := uintptr(vU64("sys" + is + ".r1"))
	errno := syscall.Errno(vU64("sys" + is + ".errno"))
	vAssume(errno < 4096)
	vAssume(vImplies(errno != 0, r1 == ^uintptr(0)))
	vAssume(vImplies(errno == 0, vNot(r1 >= ^uintptr(0)-4094)))
	return r1, errno
}

// vThread: which OS thread runs this syscall. Arbitrary, except that a
// goroutine locked to its thread since the previous syscall stays on it.
func vThread(i int) uint32 {
	tid := vU32("sys" + strconv.Itoa(i) + ".tid")
	// the same lock epoch (same goroutine, pinned since) means the same thread as the last call made in it
	if cur := vCurEpoch(); cur != 0 {
		for j := len(vSysTrace) - 1; j >= 0; j-- {
			if vSysTrace[j].epoch == cur {
				vAssume(tid == vSysTrace[j].tid)
				break
			}
		}
	}
	return tid
}

func vstubSyscall(trap, a1, a2, a3 uintptr) (uintptr, uintptr, syscall.Errno) {
	return vstubSyscall6(trap, a1, a2, a3, 0, 0, 0)
}

// golang.org/x/sys/unix wrappers of the same two system calls
func vstubUnixPrctl(option int, a2, a3, a4, a5 uintptr) error {
	_, _, e := vstubSyscall6(kNRPrctlAMD64, uintptr(option), a2, a3, a4, a5, 0)
	if e != 0 {
		return e
	}
	return nil
}

func vstubSyscall6(trap, a1, a2, a3, a4, a5, a6 uintptr) (uintptr, uintptr, syscall.Errno) {
	i := len(vSysTrace)
	rec := vSysRecord{trap: trap, a: [6]uintptr{a1, a2, a3, a4, a5, a6}, nargs: 6}
	rec.tid = vThread(i)
	rec.epoch = vCurEpoch()
	rec.nnpAtCall = vOr(vNNPAll, vAnd(vNNPSet, rec.tid == vNNPTid))
	if vNNPEarlier {
		// a thread other than the one that set the bit in an earlier call may be a thread
		// created from it since (inherits the bit) or not: arbitrary
		rec.nnpAtCall = vOr(rec.nnpAtCall, vAnd(vNNPSet, vBool("sys"+strconv.Itoa(i)+".inherited_nnp")))
	}
	r1, errno := vKernelAnswer(i)
	switch trap {
	case kNRSeccompAMD64:
		// a3 is a pointer: dereference it the way the kernel would
		fp := (*syscall.SockFprog)(unsafe.Pointer(a3))
		if fp == nil {
			rec.nullPtr = true
		} else {
			rec.progLen = fp.Len
			rec.prog = unsafe.Slice(fp.Filter, int(fp.Len))
		}
		// seccomp(2): a thread without no_new_privs and without CAP_SYS_ADMIN gets EACCES
		if a1 == kSetModeFilter {
			vAssume(vImplies(vAnd(vNot(vPrivSym), vNot(rec.nnpAtCall)), errno == kEACCES))
			// a positive return is the refused thread-sync and needs the TSYNC flag
			vAssume(vImplies(vAnd(errno == 0, r1 != 0), a2&kFlagTSync != 0))
			// seccomp(2): a successful thread-synchronising attach also gives every thread the caller's bit
			vNNPAll = vOr(vNNPAll, vAnd(vAnd(errno == 0, r1 == 0), vAnd(a2&kFlagTSync != 0, rec.nnpAtCall)))
		}
	case kNRPrctlAMD64:
		if a1 == kPRSetNNP {
			ok := vAnd(errno == 0, r1 == 0)
			// prctl(PR_SET_NO_NEW_PRIVS, 1, 0, 0, 0) sets the bit of the calling thread
			set := vAnd(ok, vAnd(a2 == 1, vAnd(a3 == 0, vAnd(a4 == 0, a5 == 0))))
			vNNPTid = vIte32(set, rec.tid, vNNPTid)
			vNNPSet = vOr(vNNPSet, set)
			vAssume(vImplies(errno == 0, r1 == 0))
		}
	}
	rec.r1, rec.errno = r1, errno
	vSysTrace = append(vSysTrace, rec)
	return r1, 0, errno
}

// ---------------------------------------------------------------------------

func vRawEqual(a syscall.SockFilter, b bpf.RawInstruction) bool {
	return vAnd(vAnd(a.Code == b.Op, a.Jt == b.Jt), vAnd(a.Jf == b.Jf, a.K == b.K))
}

// H_Load: C08 (what reaches the kernel denotes the policy), C09 (nil means in
// force; early failures leave nothing behind), C10 (flag word), C11 (prctl iff
// requested, before, same thread).
//
// Parameters: policy shape as H_Policy; "invalid" = 1 replaces the first name
// by one unknown to the table (load must fail before reaching the kernel).
func H_Load() {
	p := vPolicyFromParams()
	vSetEndian(false)
	pol := p.real()
	invalid := vParamInt("invalid") == 1
	if invalid {
		name := vEqStr("bad.name")
		_, known := p.info.SyscallNames[name]
		vAssume(!known)
		pol.Syscalls[0].Names = append(pol.Syscalls[0].Names, name)
	}
	nnp := vBool("nnp")
	if vParamInt("nnpconc") == 1 {
		nnp = true
	}
	flag := vU32("flag")
	vPrivSym = vBool("privileged")
	vSysTrace = nil
	vNNPSet, vNNPAll, vNNPEarlier = false, false, false
	vResetLocks()

	// history: the call under test is not the first use of the package in this process. An
	// earlier call of the API (any of its three entry points, with its own arguments and kernel
	// answers, possibly on another thread) must not change what this call owes: the obligations
	// below are per call. Kernel ghost state (who has the bit) carries over, the trace does not.
	if prior := vParamInt("prior"); prior > 0 {
		var pcode int
		switch prior {
		case 1:
			pcode = vRun(func() { SetNoNewPrivs() })
		case 2:
			pnnp, pflag := vBool("prior.nnp"), vU32("prior.flag")
			pp := p.real()
			pcode = vRun(func() { LoadFilter(Filter{NoNewPrivs: pnnp, Flag: FilterFlag(pflag), Policy: *pp}) })
		default:
			pcode = vRun(func() { Supported() })
		}
		vAssert(pcode == 0, "C09.nopanic")
		if pcode != 0 {
			return
		}
		vAssert(vLockDepthG[vGoID()] == 0, "C11.unlocked_after_return")
		vSysTrace = nil
		vLockDepthG, vLockDepthN = map[int]int{}, 0
		vNNPEarlier = true
		vCover("cover.history")
	}

	// the expected program: compiled by the same real compiler on a copy
	var want []bpf.RawInstruction
	if !invalid {
		cp := p.real()
		prog, err := cp.Assemble()
		if err != nil {
			vAssert(false, "C08.harness_compiles")
			return
		}
		want, err = bpf.Assemble(prog)
		if err != nil {
			vAssert(false, "C08.harness_compiles")
			return
		}
	}

	var err error
	code := vRun(func() { err = LoadFilter(Filter{NoNewPrivs: nnp, Flag: FilterFlag(flag), Policy: *pol}) })
	vAssert(code == 0, "C09.nopanic")
	if code != 0 {
		return
	}
	vCover("cover.returned")

	// classify the trace
	nPrctl, nSeccomp, nOther := 0, 0, 0
	iPrctl, iSeccomp := -1, -1
	for i, r := range vSysTrace {
		switch r.trap {
		case kNRPrctlAMD64:
			nPrctl++
			if iPrctl < 0 {
				iPrctl = i
			}
		case kNRSeccompAMD64:
			nSeccomp++
			if iSeccomp < 0 {
				iSeccomp = i
			}
		default:
			nOther++
		}
	}
	vObs("nprctl", uint64(nPrctl))
	vObs("nseccomp", uint64(nSeccomp))

	if invalid {
		vAssert(err != nil, "C09.invalid_fails")
		vAssert(len(vSysTrace) == 0, "C09.early_empty")
		vCover("cover.invalid")
		return
	}

	// C10/C11: nothing but the expected calls
	vAssert(nOther == 0, "C10.nothing_else")
	vAssert(nSeccomp <= 1, "C10.one_seccomp")
	// C11.order
	if nPrctl > 0 {
		vAssert(nnp, "C11.no_prctl_unless_requested")
		vAssert(nPrctl == 1, "C11.one_prctl")
		r := vSysTrace[iPrctl]
		vAssert(vAnd(r.a[0] == kPRSetNNP, vAnd(r.a[1] == 1, vAnd(r.a[2] == 0, vAnd(r.a[3] == 0, r.a[4] == 0)))), "C11.prctl_args")
		if nSeccomp > 0 {
			vAssert(iPrctl < iSeccomp, "C11.order")
			s := vSysTrace[iSeccomp]
			vObs("tid.prctl", uint64(r.tid))
			vObs("tid.seccomp", uint64(s.tid))
			vKnownThread(r.tid, s.tid)
			vAssert(r.tid == s.tid, "C11.thread")
			// the bit is really set (prctl succeeded) whenever a filter gets installed
			att := vAnd(vAnd(s.a[0] == kSetModeFilter, s.errno == 0), s.r1 == 0)
			vAssert(vImplies(att, vAnd(r.errno == 0, r.r1 == 0)), "C11.bit_set_before_install")
			vCover("cover.prctl_then_seccomp")
		} else {
			// prctl failed: no install attempted, error reported
			vAssert(vNot(vAnd(r.errno == 0, r.r1 == 0)), "C09.prctl_ok_but_no_seccomp")
			vAssert(err != nil, "C09.prctl_fail_reported")
			vCover("cover.prctl_failed")
		}
	} else {
		vAssert(vNot(nnp), "C11.prctl_when_requested")
	}

	if nSeccomp == 0 {
		vAssert(err != nil, "C09.no_call_no_nil")
		return
	}
	// the call that decides: the last seccomp call made
	for i, r := range vSysTrace {
		if r.trap == kNRSeccompAMD64 {
			iSeccomp = i
		}
	}
	s := vSysTrace[iSeccomp]
	attached := vAnd(vAnd(s.a[0] == kSetModeFilter, s.errno == 0), s.r1 == 0)
	vObsBool("attached", attached)
	vObsBool("nil", err == nil)
	vObs("r1", uint64(s.r1))
	vObs("errno", uint64(s.errno))

	// C09: nil only if attached; an attach is reported as nil
	vKnownNil(s)
	vAssert(vImplies(err == nil, attached), "C09.nil_attached")
	vAssert(vImplies(attached, err == nil), "C09.attached_nil")
	// "... and, when thread-sync was requested, for every thread": the attaching call carried TSYNC
	vAssert(vImplies(vAnd(err == nil, flag&kFlagTSync != 0), s.a[1]&kFlagTSync != 0), "C09.tsync_honoured")
	// an earlier seccomp call that attached a filter must not be followed by an error (a filter left behind)
	for i, r := range vSysTrace {
		if r.trap == kNRSeccompAMD64 && i != iSeccomp {
			early := vAnd(vAnd(r.a[0] == kSetModeFilter, r.errno == 0), r.r1 == 0)
			vAssert(vImplies(early, err == nil), "C09.no_filter_left_behind")
		}
	}
	vReach(vAnd(s.errno == 0, s.r1 != 0), "cover.tsync_refused")
	vReach(s.errno == kEACCES, "cover.eacces")
	vReach(s.errno == kEINVAL, "cover.einval")
	vReach(attached, "cover.attached")
	// C11: unprivileged and not requested -> error
	// (with a history the installing thread may have the bit from an earlier call: what counts is the thread's bit at the call)
	vAssert(vImplies(vAnd(vNot(vPrivSym), vAnd(vNot(nnp), vNot(s.nnpAtCall))), err != nil), "C11.unpriv_needs_nnp")

	// C10: flag word unmodified, in the flags slot
	vAssert(s.a[1] == uintptr(flag), "C10.flags")
	vAssert(s.a[0] == kSetModeFilter, "C08.op")
	vAssert(!s.nullPtr, "C08.ptr")
	if s.nullPtr {
		return
	}

	// C08: the program handed over is the compiled one, in length and element-wise
	vAssert(int(s.progLen) == len(want), "C08.len")
	vObs("len", uint64(s.progLen))
	if len(s.prog) != len(want) {
		return
	}
	same := true
	for i := range want {
		same = vAnd(same, vRawEqual(s.prog[i], want[i]))
	}
	vAssert(same, "C08.fprog")

	// end to end: the memory at the pointer, run by the kernel model, decides like the policy.
	// The memory is the same on every path; decide it on the paths that report success.
	if err != nil || !vWants("C08") {
		return
	}
	mem := make([]bpf.RawInstruction, len(s.prog))
	for i, f := range s.prog {
		mem[i] = bpf.RawInstruction{Op: f.Code, Jt: f.Jt, Jf: f.Jf, K: f.K}
	}
	valid := kmiCheck(mem)
	vAssert(valid, "C08.valid")
	if vConstFalse(valid) {
		return
	}
	ev := vNondetEvent()
	ret, done, _ := kmiRun(mem, ev.words(false))
	vAssert(done, "C08.returns")
	vAssert(ret == refDecide(p, ev, true), "C08.decision")
	vCover("cover.decided")
}

// known-finding predicates (active only while listed as open)
func vKnownThread(a, b uint32)  {}
func vKnownNil(s vSysRecord)    {}

// H_Supported: C09 (probing never changes state). Supported() must issue one
// call seccomp(SET_MODE_STRICT, flags != 0, NULL) - the form that cannot
// succeed - and return true iff the kernel answers EINVAL.
func H_Supported() {
	vSysTrace = nil
	vNNPSet = false
	vResetLocks()
	vPrivSym = vBool("privileged")
	var got bool
	code := vRun(func() { got = Supported() })
	vAssert(code == 0, "C09.probe_nopanic")
	if code != 0 {
		return
	}
	vAssert(len(vSysTrace) == 1, "C09.probe_one_call")
	if len(vSysTrace) != 1 {
		return
	}
	r := vSysTrace[0]
	vAssert(r.trap == kNRSeccompAMD64, "C09.probe_trap")
	harmless := vAnd(r.a[0] == kSetModeStrict, vAnd(r.a[1] != 0, r.nullPtr))
	vAssert(harmless, "C09.probe_harmless")
	vAssert(got == (r.errno == kEINVAL), "C09.probe_result")
	vReach(got, "cover.supported")
	vReach(vNot(got), "cover.unsupported")
}
