package seccomp

func init() {
	vRegister("H_UnpackAction", H_UnpackAction)
	vRegister("H_UnpackOperation", H_UnpackOperation)
	vRegister("H_RoundTrip", H_RoundTrip)
	vRegister("H_UnpackActionBytes", H_UnpackActionBytes)
	vRegister("H_UnpackOperationBytes", H_UnpackOperationBytes)
	vRegister("H_UnpackConcrete", H_UnpackConcrete)
}

// documented action names and their kernel constants (README / seccomp.yml, linux/seccomp.h)
var vDocActions = []struct {
	name string
	val  uint32
}{
	{"kill_thread", kRetKillThread}, {"kill_process", kRetKillProcess}, {"trap", kRetTrap}, {"errno", kRetErrno},
	{"trace", kRetTrace}, {"log", kRetLog}, {"allow", kRetAllow},
}

var vDocOperations = []string{"Equal", "NotEqual", "GreaterThan", "LessThan", "GreaterOrEqual", "LessOrEqual", "BitsSet", "BitsNotSet"}

// H_UnpackAction: C14(a). For every string s: Unpack succeeds with value a
// iff lower(s) is the documented name of a; nothing else maps to any action.
// Parameter order: map iteration order used by the code under test.
func H_UnpackAction() {
	vMapOrder(vParamStr("order"))
	s := vEqStr("s")
	a := Action(0x12345678)
	err := a.Unpack(s)
	vMapOrder("asc")
	ls := vLower(s)
	known := false
	var want uint32
	for _, d := range vDocActions {
		hit := ls == d.name
		known = vOr(known, hit)
		want = vIte32(hit, d.val, want)
	}
	vObsStr("s", s)
	vObs("a", uint64(a))
	vAssert((err == nil) == known, "C14.unpack_iff")
	if err == nil {
		vAssert(uint32(a) == want, "C14.unpack_value")
		vCover("cover.unpack.ok")
		vReach(s != ls, "cover.unpack.case_variant")
	} else {
		vAssert(uint32(a) == 0x12345678, "C14.reject_leaves_value")
		vCover("cover.unpack.rejected")
	}
}

// H_UnpackOperation: the same for operation names; the result is the
// canonical spelling.
func H_UnpackOperation() {
	s := vEqStr("s")
	o := Operation("untouched")
	err := o.Unpack(s)
	ls := vLower(s)
	known := false
	for _, d := range vDocOperations {
		hit := ls == vLower(d)
		known = vOr(known, hit)
		if err == nil {
			vAssert(vImplies(hit, string(o) == d), "C14.unpack_op_value@"+d)
		}
	}
	vObsStr("s", s)
	vAssert((err == nil) == known, "C14.unpack_op_iff")
	if err == nil {
		vCover("cover.unpack_op.ok")
	} else {
		vAssert(o == "untouched", "C14.reject_leaves_op")
		vCover("cover.unpack_op.rejected")
	}
	// every documented operation is one the compiler knows
	for i, d := range vDocOperations {
		vAssert(i < len(Operations) && string(Operations[i]) == d, "C14.operations_list@"+d)
	}
	vAssert(len(Operations) == len(vDocOperations), "C14.operations_len")
}

// H_UnpackActionBytes / H_UnpackOperationBytes: the same two obligations with
// the input as a string of "len" arbitrary 7-bit ASCII characters (a byte
// vector, not an equality atom), so that code which inspects the string byte
// by byte - its length, a prefix, single characters - is decided too: a name
// followed or preceded by something else must be rejected.
func H_UnpackActionBytes() {
	vMapOrder(vParamStr("order"))
	s := vBytesStr("s", vParamInt("len"))
	a := Action(0x12345678)
	var err error
	code := vRun(func() { err = a.Unpack(s) })
	vMapOrder("asc")
	vAssert(code == 0, "C14.unpack_nopanic")
	if code != 0 {
		return
	}
	ls := vLower(s)
	known := false
	var want uint32
	for _, d := range vDocActions {
		hit := ls == d.name
		known = vOr(known, hit)
		want = vIte32(hit, d.val, want)
	}
	vObs("a", uint64(a))
	vAssert((err == nil) == known, "C14.unpack_iff")
	if err == nil {
		vAssert(uint32(a) == want, "C14.unpack_value")
		vCover("cover.unpack_bytes.ok")
	} else {
		vAssert(uint32(a) == 0x12345678, "C14.reject_leaves_value")
		vCover("cover.unpack_bytes.rejected")
	}
}

func H_UnpackOperationBytes() {
	s := vBytesStr("s", vParamInt("len"))
	o := Operation("untouched")
	var err error
	code := vRun(func() { err = o.Unpack(s) })
	vAssert(code == 0, "C14.unpack_nopanic")
	if code != 0 {
		return
	}
	ls := vLower(s)
	known := false
	for _, d := range vDocOperations {
		hit := ls == vLower(d)
		known = vOr(known, hit)
		if err == nil {
			vAssert(vImplies(hit, string(o) == d), "C14.unpack_op_value@"+d)
		}
	}
	vAssert((err == nil) == known, "C14.unpack_op_iff")
	if err == nil {
		vCover("cover.unpack_op_bytes.ok")
	} else {
		vAssert(o == "untouched", "C14.reject_leaves_op")
		vCover("cover.unpack_op_bytes.rejected")
	}
}

// H_UnpackConcrete: both parsers on ONE concrete string (parameter "s"): near
// misses of the documented names that neither string encoding reaches -
// numbers in several bases, surrounding white space, punctuation, non-ASCII
// look-alikes, very long input. Everything is concrete, so whatever library
// function the parser uses is simply executed. Not the deciding step for "all
// strings"; a complement to it.
func H_UnpackConcrete() {
	s := vParamStr("s")
	ls := vLower(s)
	a := Action(0x12345678)
	var err error
	code := vRun(func() { err = a.Unpack(s) })
	vAssert(code == 0, "C14.unpack_nopanic")
	if code != 0 {
		return
	}
	known := false
	for _, d := range vDocActions {
		if ls == d.name {
			known = true
			vAssert(err == nil && uint32(a) == d.val, "C14.unpack_value")
		}
	}
	vAssert((err == nil) == known, "C14.unpack_iff")
	if err != nil {
		vAssert(uint32(a) == 0x12345678, "C14.reject_leaves_value")
	}
	o := Operation("untouched")
	code = vRun(func() { err = o.Unpack(s) })
	vAssert(code == 0, "C14.unpack_nopanic")
	if code != 0 {
		return
	}
	known = false
	for _, d := range vDocOperations {
		if ls == vLower(d) {
			known = true
			vAssert(err == nil && string(o) == d, "C14.unpack_op_value@"+d)
		}
	}
	vAssert((err == nil) == known, "C14.unpack_op_iff")
	if err != nil {
		vAssert(o == "untouched", "C14.reject_leaves_op")
	}
	vCover("cover.unpack_concrete")
}

// H_RoundTrip: parsing the printed form of any named value gives the value
// back; MarshalText prints the same as String; constants equal the kernel's.
func H_RoundTrip() {
	a := Action(vU32("a"))
	vAssume(vIsKernelAction(uint32(a)))
	str := a.String()
	var back Action
	err := back.Unpack(str)
	vAssert(err == nil, "C14.roundtrip_ok")
	if err == nil {
		vAssert(back == a, "C14.roundtrip")
	}
	b, merr := a.MarshalText()
	vAssert(merr == nil, "C14.marshal_ok")
	vAssert(string(b) == str, "C14.marshal_is_string")
	// the documented name is printed
	for _, d := range vDocActions {
		vAssert(vImplies(uint32(a) == d.val, str == d.name), "C14.string@"+d.name)
	}
	// unknown values never print a documented name
	u := Action(vU32("u"))
	vAssume(vNot(vIsKernelAction(uint32(u))))
	us := u.String()
	for _, d := range vDocActions {
		vAssert(us != d.name, "C14.unknown_prints_no_name@"+d.name)
	}
	vAssert(vAnd(uint32(ActionKillThread) == kRetKillThread, vAnd(uint32(ActionKillProcess) == kRetKillProcess, vAnd(uint32(ActionTrap) == kRetTrap,
		vAnd(uint32(ActionErrno) == kRetErrno, vAnd(uint32(ActionTrace) == kRetTrace, vAnd(uint32(ActionLog) == kRetLog, uint32(ActionAllow) == kRetAllow)))))), "C14.constants")
	// operations
	for _, d := range vDocOperations {
		var o Operation
		err := o.Unpack(d)
		vAssert(vAnd(err == nil, string(o) == d), "C14.roundtrip_op@"+d)
	}
	vCover("cover.roundtrip")
}
