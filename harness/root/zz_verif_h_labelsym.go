package seccomp

import (
	"strconv"

	"golang.org/x/net/bpf"
)

func init() {
	vRegister("H_LabelSym", H_LabelSym)
}

// H_LabelSym: C06 over SYMBOLIC distances. The pre-state of the assembler is
// constructed directly: an instruction list of symbolic length n in which only
// the K conditional jumps (at symbolic, increasing positions) and the two
// final returns are known, every other position being an anonymous load;
// p.jumps and p.labels hold symbolic indices. Assemble runs on it (real code),
// forking on every comparison of indices. Afterwards, for every jump and
// branch, the resolved skip must lead - directly, or through inserted long
// jumps - to the instruction the label marked, or to an inserted copy of the
// return it marked; inserted instructions must sit behind a conditional jump
// or another inserted instruction; the length grows by exactly the number of
// inserted instructions.
//
// Parameters: K (1 or 2); j<k>.t / j<k>.f in {"next", "load", "J2", "ret1",
// "ret2"}; mode 1 = branches with the same target share a label.
func H_LabelSym() {
	K := vParamInt("K")
	mode := vParamInt("mode")
	n := vInt("n")
	vAssume(n >= 3)
	vAssume(n <= 1<<20)
	filler := bpf.Instruction(bpf.LoadAbsolute{Off: 16, Size: 4})
	ins := vAbsInstrs(n, filler)

	jpos := make([]int, K+1)
	prev := -1
	for k := 1; k <= K; k++ {
		jpos[k] = vInt("j" + strconv.Itoa(k))
		vAssume(jpos[k] > prev)
		vAssume(jpos[k] < n-2)
		prev = jpos[k]
		ins[jpos[k]] = bpf.JumpIf{Cond: bpf.JumpEqual, Val: uint32(1000 + k)}
	}
	ret1, ret2 := n-2, n-1
	ins[ret1] = bpf.RetConstant{Val: 0x7fff0011}
	ins[ret2] = bpf.RetConstant{Val: 0x00030022}

	// targets in original coordinates
	type tgt struct {
		pos    int
		isRet  bool
		retVal uint32
	}
	target := func(k int, br string) tgt {
		s := vParamStr("j" + strconv.Itoa(k) + "." + br)
		switch s {
		case "next":
			if k < K {
				vAssume(jpos[k]+1 < jpos[k+1]) // the next instruction is a load
			} else {
				vAssume(jpos[k]+1 < ret1)
			}
			return tgt{pos: jpos[k] + 1}
		case "load":
			l := vInt("j" + strconv.Itoa(k) + "." + br + ".load")
			vAssume(l > jpos[k])
			vAssume(l < ret1)
			for m := 1; m <= K; m++ {
				vAssume(l != jpos[m])
			}
			return tgt{pos: l}
		case "J2":
			return tgt{pos: jpos[2]}
		case "ret1":
			return tgt{pos: ret1, isRet: true, retVal: 0x7fff0011}
		case "ret2":
			return tgt{pos: ret2, isRet: true, retVal: 0x00030022}
		}
		panic("bad target " + s)
	}
	p := NewProgram()
	tg := map[int]tgt{}
	nextLabel := Label(10)
	byName := map[string]Label{}
	for k := 1; k <= K; k++ {
		var ls [2]Label
		for bi, br := range []string{"t", "f"} {
			t := target(k, br)
			tg[2*k+bi] = t
			name := vParamStr("j" + strconv.Itoa(k) + "." + br)
			l, shared := byName[name]
			if mode != 1 || !shared || name == "next" || name == "load" {
				nextLabel++
				l = nextLabel
				byName[name] = l
				p.labels[l] = []Index{Index(t.pos)}
			}
			ls[bi] = l
		}
		// a jump with both branches to the next instruction is rejected by design ("useless jump")
		vAssume(vNot(vAnd(tg[2*k].pos == jpos[k]+1, tg[2*k+1].pos == jpos[k]+1)))
		p.jumps = append(p.jumps, JumpIf{index: Index(jpos[k]), trueLabel: ls[0], falseLabel: ls[1]})
	}
	p.instructions = ins
	vAbsLive(ins)

	var out []bpf.Instruction
	var err error
	code := vRun(func() { out, err = p.Assemble() })
	vAssert(code != 4, "C06.terminates")
	vAssert(code == 0, "C06.nopanic")
	if code != 0 {
		return
	}
	vAssert(err == nil, "C06.noerr")
	if err != nil {
		return
	}
	vCover("assembled")

	cnt := vAbsCount(out)
	// what only the assembler can have put there: a long jump, or a return that is not one of the
	// two final ones (value-based, the same in the engine and natively)
	isAdded := make([]bool, cnt)
	added := 0
	for i := 0; i < cnt; i++ {
		switch vAbsVal(out, i).(type) {
		case bpf.Jump:
			isAdded[i] = vAbsGuard(out, i)
		case bpf.RetConstant:
			isAdded[i] = vAnd(vAbsGuard(out, i), vAbsIdx(out, i) < len(out)-2)
		}
		added += vIteInt(isAdded[i], 1, 0)
		vReach(isAdded[i], "cover.bridged")
	}
	vObs("added", uint64(added))
	vObs("n", uint64(n))
	vAssert(len(out) == n+added, "C06.land_len")

	// predicated views of the final list
	addedAt := func(x int) bool {
		r := false
		for i := 0; i < cnt; i++ {
			r = vOr(r, vAnd(isAdded[i], vAbsIdx(out, i) == x))
		}
		return r
	}
	addedBefore := func(x int) int {
		c := 0
		for i := 0; i < cnt; i++ {
			c += vIteInt(vAnd(isAdded[i], vAbsIdx(out, i) < x), 1, 0)
		}
		return c
	}
	jaAt := func(x int) (bool, int) {
		is, skip := false, 0
		for i := 0; i < cnt; i++ {
			if j, ok := vAbsVal(out, i).(bpf.Jump); ok {
				h := vAnd(isAdded[i], vAbsIdx(out, i) == x)
				is = vOr(is, h)
				skip = vIteInt(h, int(j.Skip), skip)
			}
		}
		return is, skip
	}
	retCopyAt := func(x int, val uint32) bool {
		r := false
		for i := 0; i < cnt; i++ {
			if rc, ok := vAbsVal(out, i).(bpf.RetConstant); ok {
				r = vOr(r, vAnd(vAnd(isAdded[i], vAbsIdx(out, i) == x), rc.Val == val))
			}
		}
		return r
	}

	for k := 1; k <= K; k++ {
		// the jump in the final list
		found := false
		jfin, st, sf := 0, 0, 0
		for i := 0; i < cnt; i++ {
			if ji, ok := vAbsVal(out, i).(bpf.JumpIf); ok {
				h := vAnd(vAbsGuard(out, i), ji.Val == uint32(1000+k))
				found = vOr(found, h)
				jfin = vIteInt(h, vAbsIdx(out, i), jfin)
				st = vIteInt(h, int(ji.SkipTrue), st)
				sf = vIteInt(h, int(ji.SkipFalse), sf)
			}
		}
		vAssert(found, "C06.land_jump_kept@"+strconv.Itoa(k))
		vAssert(jfin-addedBefore(jfin) == jpos[k], "C06.land_jump_pos@"+strconv.Itoa(k))
		for bi, skip := range []int{st, sf} {
			t := tg[2*k+bi]
			x := jfin + 1 + skip
			// follow inserted long jumps (a longer chain than K+1 fails the obligation)
			for d := 0; d < K+1; d++ {
				is, s := jaAt(x)
				x = vIteInt(is, x+1+s, x)
			}
			direct := vAnd(vNot(addedAt(x)), x-addedBefore(x) == t.pos)
			viaCopy := false
			if t.isRet {
				viaCopy = retCopyAt(x, t.retVal)
			}
			vObs("land"+strconv.Itoa(k)+"."+strconv.Itoa(bi), uint64(x))
			vAssert(vOr(direct, viaCopy), "C06.land@"+strconv.Itoa(k)+"."+strconv.Itoa(bi))
		}
	}
	// no instruction falls through into an inserted one
	for i := 0; i < cnt; i++ {
		if vConstFalse(isAdded[i]) {
			continue
		}
		xi := vAbsIdx(out, i)
		okPred := false
		for j := 0; j < cnt; j++ {
			_, isJumpIf := vAbsVal(out, j).(bpf.JumpIf)
			pj := isAdded[j]
			if isJumpIf {
				pj = vAbsGuard(out, j)
			}
			okPred = vOr(okPred, vAnd(pj, vAbsIdx(out, j) == xi-1))
		}
		vAssert(vImplies(isAdded[i], okPred), "C06.land_no_fallthrough@"+strconv.Itoa(i))
	}
}
