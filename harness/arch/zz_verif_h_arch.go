package arch

func init() {
	vRegister("H_Inverse", H_Inverse)
	vRegister("H_Unambiguous", H_Unambiguous)
	vRegister("H_Oracle", H_Oracle)
	vRegister("H_AuditID", H_AuditID)
	vRegister("H_GetInfo", H_GetInfo)
	vRegister("H_GetInfoBytes", H_GetInfoBytes)
	vRegister("H_Alias", H_Alias)
}

func vInfo(table string) *Info {
	switch table {
	case "x86_64":
		return X86_64
	case "i386":
		return I386
	case "arm":
		return ARM
	case "aarch64":
		return AARCH64
	case "x32":
		return X32
	}
	panic("vInfo: " + table)
}

// H_Inverse: for a symbolic name s and number n,
// SyscallNames[s] == n  <=>  SyscallNumbers[n] == s.
func H_Inverse() {
	info := vInfo(vParamStr("table"))
	s := vEqStr("s")
	n := vInt("n")
	n2, ok1 := info.SyscallNames[s]
	s2, ok2 := info.SyscallNumbers[n]
	vKnownInverse(info, s, n)
	vAssert(vAnd(ok1, n2 == n) == vAnd(ok2, s2 == s), "C12.inverse")
	vReach(vAnd(ok1, n2 == n), "cover.inverse.hit")
	vReach(vAnd(vNot(ok1), vNot(ok2)), "cover.inverse.miss")
	vAssert(len(info.SyscallNames) == len(info.SyscallNumbers), "C12.inverse_size")
}

// H_Unambiguous: no name has two numbers (so invert() is deterministic).
func H_Unambiguous() {
	info := vInfo(vParamStr("table"))
	n1, n2 := vInt("n1"), vInt("n2")
	s1, ok1 := info.SyscallNumbers[n1]
	s2, ok2 := info.SyscallNumbers[n2]
	vKnownDup(n1, n2)
	vAssert(vImplies(vAnd(vAnd(ok1, ok2), n1 != n2), s1 != s2), "C12.unambiguous")
	vReach(vAnd(vAnd(ok1, ok2), n1 != n2), "cover.two_entries")
	// the real invert under both extreme iteration orders gives the same map
	vMapOrder("asc")
	a := invert(info.SyscallNumbers)
	vMapOrder("desc")
	b := invert(info.SyscallNumbers)
	vMapOrder("asc")
	same := len(a) == len(b)
	for k, v := range a {
		w, ok := b[k]
		if !ok || w != v {
			same = false
		}
	}
	vAssert(same, "C12.invert_order")
}

// H_Oracle: every syscall an independent source lists under a name the table
// also has, has the same number there.
func H_Oracle() {
	table, source := vParamStr("table"), vParamStr("source")
	info := vInfo(table)
	or := vOracleTable(table, source)
	if or == nil {
		panic("no oracle table " + table + "/" + source)
	}
	s := vEqStr("s")
	on, ok1 := or[s]
	rn, ok2 := info.SyscallNames[s]
	vAssert(vImplies(vAnd(ok1, ok2), on == rn), "C12.oracle")
	vReach(vAnd(ok1, ok2), "cover.oracle.common")
	vObs("oracle", uint64(on))
	vObs("repo", uint64(rn))
}

// H_AuditID: each audit architecture identifier equals linux/audit.h.
func H_AuditID() {
	type pair struct {
		info *Info
		name string
	}
	for _, p := range []pair{
		{ARM, "AUDIT_ARCH_ARM"}, {AARCH64, "AUDIT_ARCH_AARCH64"}, {I386, "AUDIT_ARCH_I386"}, {X32, "AUDIT_ARCH_X86_64"},
		{X86_64, "AUDIT_ARCH_X86_64"}, {PPC, "AUDIT_ARCH_PPC"}, {PPC64, "AUDIT_ARCH_PPC64"}, {PPC64LE, "AUDIT_ARCH_PPC64LE"},
		{S390, "AUDIT_ARCH_S390"}, {S390X, "AUDIT_ARCH_S390X"}, {MIPS, "AUDIT_ARCH_MIPS"}, {MIPSEL, "AUDIT_ARCH_MIPSEL"},
		{MIPS64, "AUDIT_ARCH_MIPS64"}, {MIPS64N32, "AUDIT_ARCH_MIPS64N32"}, {MIPSEL64, "AUDIT_ARCH_MIPSEL64"}, {MIPSEL64N32, "AUDIT_ARCH_MIPSEL64N32"},
	} {
		want, ok := vAuditArch[p.name]
		if !ok {
			panic("oracle lacks " + p.name)
		}
		vAssert(uint32(p.info.ID) == want, "C12.auditid@"+p.name)
	}
	vAssert(X32.SeccompMask == 0x40000000, "C12.x32mask")
	vCover("cover.auditid")
}

// vWantInfo: what the statement requires for a lower-cased architecture name.
func vWantInfo(lower string) (*Info, bool) {
	switch lower {
	case "amd64", "x86_64":
		return X86_64, true
	case "386", "i386":
		return I386, true
	case "arm64", "aarch64":
		return AARCH64, true
	case "arm":
		return ARM, true
	case "x32":
		return X32, true
	}
	return nil, false
}

// H_Alias: for a symbolic spelling s whose lower-case form is the parameter,
// GetInfo resolves to the required table (or reports unsupported).
func H_Alias() {
	lower := vParamStr("lower")
	s := vEqStr("s")
	vAssume(s != "")
	vAssume(vLower(s) == lower)
	info, err := GetInfo(s)
	want, supported := vWantInfo(lower)
	if supported {
		vAssert(err == nil, "C12.alias_ok@"+lower)
		vAssert(info == want, "C12.alias@"+lower)
	} else {
		vAssert(err != nil, "C12.unsupported@"+lower)
		vAssert(info == nil, "C12.unsupported_nil@"+lower)
	}
	vCover("cover.alias")
}

// H_GetInfo: two symbolic spellings with the same lower-case form get the
// same answer, and a spelling outside every name known to the package is
// reported as unsupported.
func H_GetInfo() {
	s1, s2 := vEqStr("s1"), vEqStr("s2")
	vAssume(s1 != "")
	vAssume(s2 != "")
	vAssume(vLower(s1) == vLower(s2))
	i1, e1 := GetInfo(s1)
	i2, e2 := GetInfo(s2)
	vAssert(i1 == i2, "C12.case")
	vAssert((e1 == nil) == (e2 == nil), "C12.case_err")
	vAssert((e1 == nil) != (i1 == nil), "C12.info_xor_err")
	if e1 == nil {
		vAssert(len(i1.SyscallNames) > 0, "C12.supported_has_table")
		vCover("cover.getinfo.ok")
	} else {
		vCover("cover.getinfo.err")
	}
	// known to the package at all?
	_, known := arches[vLower(s1)]
	vReach(vNot(known), "cover.getinfo.unknown")
	vAssert(vImplies(vNot(known), e1 != nil), "C12.unknown_unsupported")
}

// H_GetInfoBytes: the same question on byte-vector strings (every string of
// "len" 7-bit ASCII characters), so that lookups which order strings, search a
// sorted list or look at prefixes are decided too: GetInfo succeeds, with the
// required table, iff the lower-cased name is one of the spellings that have a
// table; every other string is unsupported.
func H_GetInfoBytes() {
	s := vBytesStr("s", vParamInt("len"))
	var info *Info
	var err error
	code := vRun(func() { info, err = GetInfo(s) })
	vAssert(code == 0, "C12.getinfo_nopanic")
	if code != 0 {
		return
	}
	ls := vLower(s)
	hitAny := false
	for _, sp := range []string{"amd64", "x86_64", "386", "i386", "arm64", "aarch64", "arm", "x32"} {
		want, _ := vWantInfo(sp)
		hit := ls == sp
		hitAny = vOr(hitAny, hit)
		vAssert(vImplies(hit, vAnd(err == nil, info == want)), "C12.alias_bytes@"+sp)
	}
	vAssert(vImplies(vNot(hitAny), vAnd(err != nil, info == nil)), "C12.unsupported_bytes")
	vReach(hitAny, "cover.getinfo_bytes.ok")
	vReach(vNot(hitAny), "cover.getinfo_bytes.err")
}

// known-finding predicates (active only while listed as open)
func vKnownInverse(info *Info, s string, n int) {}
func vKnownDup(n1, n2 int)                     {}
