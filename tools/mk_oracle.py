#!/usr/bin/env python3
"""Vendors facts about Linux (not about /repo) into /verif/oracle/: syscall numbers from
Go's syscall package, golang.org/x/sys/unix and the host's UAPI headers; AUDIT_ARCH_*
constants from linux/audit.h + linux/elf-em.h. Run once; the output is committed."""
import re, json, glob, os, subprocess
goroot = subprocess.check_output(["go", "env", "GOROOT"]).decode().strip()
modcache = subprocess.check_output(["go", "env", "GOMODCACHE"]).decode().strip()
ARCH = {"386": "i386", "amd64": "x86_64", "arm": "arm", "arm64": "aarch64"}
out = {"provenance": {}, "tables": {}}
def gofile(path):
    d = {}
    for l in open(path):
        m = re.match(r'\s*SYS_(\w+)\s*=\s*(\d+)', l)
        if m:
            d[m.group(1).lower()] = int(m.group(2))
    return d
def add(arch, source, d, prov):
    out["tables"].setdefault(arch, {})[source] = d
    out["provenance"][arch + "/" + source] = prov
for ga, la in ARCH.items():
    p = f"{goroot}/src/syscall/zsysnum_linux_{ga}.go"
    add(la, "go-syscall", gofile(p), p)
    p = f"{modcache}/golang.org/x/sys@v0.48.0/unix/zsysnum_linux_{ga}.go"
    add(la, "x-sys-unix", gofile(p), p)
def hdr(p):
    d = {}
    for l in open(p):
        m = re.match(r'#define __NR_(\w+)\s+\(?(?:__X32_SYSCALL_BIT \+ )?(\d+)\)?\s*$', l)
        if m:
            d[m.group(1)] = int(m.group(2))
    return d
inc = "/usr/include/x86_64-linux-gnu/asm/"
add("i386", "host-uapi", hdr(inc + "unistd_32.h"), inc + "unistd_32.h")
add("x86_64", "host-uapi", hdr(inc + "unistd_64.h"), inc + "unistd_64.h")
add("x32", "host-uapi", hdr(inc + "unistd_x32.h"), inc + "unistd_x32.h (numbers without __X32_SYSCALL_BIT)")
g = hdr("/usr/include/asm-generic/unistd.h")
for k in ("syscalls", "arch_specific_syscall"):
    g.pop(k, None)
add("aarch64", "host-uapi-generic", g, "/usr/include/asm-generic/unistd.h (plain numeric defines only)")
json.dump(out, open("/verif/oracle/syscalls.json", "w"), indent=0, sort_keys=True)
# audit arch
em = {}
for l in open("/usr/include/linux/elf-em.h"):
    m = re.match(r'#define (EM_\w+)\s+(0x[0-9a-fA-F]+|\d+)', l)
    if m:
        em[m.group(1)] = int(m.group(2), 0)
flags = {"__AUDIT_ARCH_CONVENTION_MIPS64_N32": 0x20000000, "__AUDIT_ARCH_64BIT": 0x80000000, "__AUDIT_ARCH_LE": 0x40000000}
aud = {}
for l in open("/usr/include/linux/audit.h").read().replace("\\\n", " ").splitlines():
    m = re.match(r'#define (AUDIT_ARCH_\w+)\s+\((.*)\)', l)
    if m:
        v = 0
        ok = True
        for t in m.group(2).split("|"):
            t = t.strip().rstrip("\\").strip()
            if t in em: v |= em[t]
            elif t in flags: v |= flags[t]
            else: ok = False
        if ok:
            aud[m.group(1)] = v
json.dump({"provenance": "/usr/include/linux/audit.h + /usr/include/linux/elf-em.h", "audit_arch": aud}, open("/verif/oracle/audit_arch.json", "w"), indent=0, sort_keys=True)
# uapi constants used by C19/C14
consts = {}
for f in ["/usr/include/linux/seccomp.h", "/usr/include/linux/prctl.h", "/usr/include/asm-generic/errno-base.h", "/usr/include/asm-generic/errno.h"]:
    for l in open(f):
        m = re.match(r'#define\s+(\w+)\s+(.+?)\s*(/\*.*)?$', l)
        if m:
            e = re.sub(r'(?<=[0-9a-fA-F])U?L?L?\b', '', m.group(2))
            if re.fullmatch(r'[0-9a-fA-Fx()<|\s]+', e):
                try:
                    consts[m.group(1)] = int(eval(e))
                except Exception:
                    pass
json.dump({"provenance": "linux/seccomp.h, linux/prctl.h, asm-generic/errno*.h", "constants": consts}, open("/verif/oracle/uapi_constants.json", "w"), indent=0, sort_keys=True)
print({a: {s: len(d) for s, d in t.items()} for a, t in out["tables"].items()}, len(aud), len(consts))
