#!/usr/bin/env python3
"""Regenerates /verif/MANIFEST.json from the table below (single source of truth)."""
import json

PROPS = [json.loads(l)["id"] for l in open("/verif/properties.jsonl")]

TV = "translation_validation"
MC = "model_checking"
OT = "other"

CHECKS = {
    "C01": (TV, "4 (C01)",
            "Bounded translation validation by SMT: for every policy shape in the stated families (all name-only structures up to weight 7/9; whole tables in 1-3 groups; name lists around the 255/256 switch) the real compiler is executed symbolically and 'compiled filter == first matching group else default' is decided for ALL events, default actions and group action words by z3/cvc5 (unsat = holds for every value). A pass says nothing about shapes outside the families.",
            "Trusted: KMI kernel model and refDecide oracle (harness/root/zz_verif_model.go), the go/ssa interpreter and term simplifier (every model is replayed natively before it is reported), the SMT solvers (verdict queries cross-checked by a second solver). Assumes default action is one of the seven kernel actions.",
            "SMT-based bounded translation validation of the real compiler (go/ssa symbolic execution, z3 + cvc5)"),
    "C02": (TV, "4 (C02)",
            "For each of the 8 operations x 3 places x 2 byte orders the single-condition entry produced by the real compiler is shown by SMT to match exactly when the unsigned 64-bit relation holds, for all 2^64 operands, all 2^64 argument values and a symbolic argument index 0..5; the rel64 == relSplit lemma used by the other checks is proved on every run. No bound on values; structure bounded to one/two conditions.",
            "Trusted: KMI, vRel64 oracle (SMT bvult/bvule/=/bvand), engine + solvers as for C01. The byte order is set through the unexported package variable by the in-package harness.",
            "SMT-based equivalence of compiled condition vs 64-bit relation over all values (go/ssa symbolic execution, z3 + cvc5)"),
    "C03": (TV, "4 (C03)",
            "Same equivalence as C01 on all shapes with argument conditions up to weight 7/9 (AND within a list, OR across lists incl. merged same-name entries, fall-through to later entries, groups, default) with operands, argument indices, events and actions symbolic, plus long lists (64x1, 22x3; thorough up to 130x1, 11x6, 300 conditional syscalls) and all 64 ordered pairs of operations in one list with symbolic argument indices (several conditions on the same argument). The 'no leak' clause is covered because argument words are unconstrained, so the solver is free to make them equal any syscall number or operand.",
            "As C01. Operations on the small shapes are the representatives {Equal, GreaterThan} (+BitsNotSet in thorough); the other operations are C02's job and appear in the long shapes.",
            "SMT-based bounded translation validation of the real compiler (go/ssa symbolic execution, z3 + cvc5)"),
    "C04": (TV, "4 (C04)",
            "Per shape two SMT-decided implications over all events: arch != policy arch => default action; on x86_64 nr >=u 0x40000000 => ERRNO|ENOSYS; plus 'no argument word is loaded on such events' as an obligation over the kernel model's reach predicates. Families include both encodings of the architecture jump (248..259 names, whole tables, long conditional lists).",
            "As C01. 'Never compared against a rule' is observable only through the returned action and the loads reached; both are decided, the internal comparison order is not.",
            "SMT-based bounded translation validation of the real compiler (go/ssa symbolic execution, z3 + cvc5)"),
    "C05": (TV, "4 (C05)",
            "Every program the real compiler emits for the shapes of the families (incl. empty groups, all-empty policies on four architectures, maximal lists) is run through x/net/bpf's real raw encoder (symbolically executed) and a model of bpf_check_classic + seccomp_check_filter; load offsets are bit-vector obligations under a symbolic argument index; every RET operand is shown to be enc(default), enc(some group action) or ERRNO|ENOSYS for all action words.",
            "Trusted: kmiCheck (port of the kernel verifier rules, ~60 lines), engine, solvers. Programs > 4096 instructions are outside by the statement. In the small family argument indices are arbitrary 32-bit values with NO validity assumption: whatever the compiler accepts must be valid.",
            "SMT-based validation of emitted programs against a verifier model (go/ssa symbolic execution, z3 + cvc5)"),
    "C06": (TV, "4 (C06)",
            "Label programs r0 J1 r1 .. JK rK ret ret are built through the real public builder and assembled by the real assembler (symbolically executed); for every program of the family (all K=1, stride+seeded slice of K=2, sampled K=3/4; distances around 255/256 and 505..515) SMT decides assembled-list == label-level program for all 16 input words and all jump operands. Also the policy-level programs above 255 instructions. Symbolic distances: the assembler also runs on a constructed pre-state with a symbolic-length instruction list (abstract slice) and symbolic jump/label indices; for all 17 one-jump programs (both tiers) and 48 sampled two-jump programs (thorough) every resolved skip is shown to lead - directly or through inserted long jumps - to the marked instruction or a copy of the marked return, for EVERY distance up to 2^20; termination is an obligation (step budget).",
            "Trusted: abstract label machine vAbsRun (~40 lines), the abstract-slice model (gosym/abs.go), KMI, engine, solvers. Programs with 3-4 jumps only at the listed run lengths; two-jump symbolic programs only for the sampled target combinations.",
            "SMT-based bounded translation validation of the real assembler (go/ssa symbolic execution, z3 + cvc5)"),
    "C07": (MC, "4 (C07)",
            "Symbolic execution of the real compiler on every valid base shape of weight <=5/6 with one defect injected at each position in turn; the defect payload is symbolic (any non-kernel action word; any string that is not a key of the table; any index > 5; any string that is none of the eight operations), so one SMT verdict per instance covers all payload values: every path returns err != nil and no program and no panic path is feasible. Valid shapes up to weight 6/8 and the large shapes are accepted on every path.",
            "Trusted: engine, equality-atom string encoding, solvers; models replayed natively. Two defects at once and the GOARCH-default path to an architecture without tables (C19) are outside.",
            "SMT-based bounded symbolic execution of the real validator/compiler with symbolic defect payloads (z3 + cvc5)"),
    "C08": (TV, "4 (C08)",
            "The real LoadFilter is executed symbolically with syscall.Syscall redirected to a kernel-contract stub. At the seccomp call the harness dereferences the pointer argument exactly as the kernel would and SMT decides: length and every element equal the raw encoding of the compiled program, and the memory at the pointer, evaluated by the kernel model, decides like the policy for all events. What the running kernel then does with those bytes is represented by the KMI model for the deciding step; in addition every run SAMPLES the running kernel (not deciding): 60/400 policies over harmless probe syscalls are installed by the real LoadFilter in child processes and probed with chosen 64-bit register values - errno / success / SIGSYS must equal the model.",
            "Trusted: kernel contract stub, KMI, refDecide, engine (unsafe.Pointer/uintptr provenance model), solvers. Native replay runs seccomp_linux.go with its syscall selectors mechanically rewritten to the stub.",
            "SMT-based translation validation at the syscall boundary (go/ssa symbolic execution with a kernel-contract stub, z3 + cvc5)"),
    "C09": (MC, "4 (C09)",
            "Every (r1, errno) the kernel may return from prctl and seccomp is a symbolic variable; on every path of the real LoadFilter SMT decides result == nil <=> attached, failure before the kernel => empty call trace, prctl failure => no seccomp call; Supported() issues exactly one seccomp(SET_MODE_STRICT, flags != 0, NULL) and returns true iff EINVAL. Histories of loads on other threads are represented by the kernel answer they provoke (positive r1), not replayed as histories. Histories: three (thorough nine) instances run an earlier SetNoNewPrivs / LoadFilter / Supported call in the same process first (own arguments and kernel answers; kernel ghost state carried over) and check the obligations of the second call.",
            "Trusted: the seccomp(2)/prctl(2) contract as encoded in the stub (~100 lines); whether the kernel honours it is outside.",
            "SMT-based symbolic execution of the loader over all kernel answers (z3 + cvc5)"),
    "C10": (MC, "4 (C10)",
            "What the library contributes to thread-sync is decided: for all 2^32 Flag values the seccomp call's flags argument equals the zero-extended flag word, no other state-changing call is made, and nil is returned only if the kernel reported complete synchronisation (r1 == 0). The quantifier over interleavings with N other threads is NOT explored: TSYNC atomicity is kernel code and is assumed from seccomp(2).",
            "Assumes the kernel applies a TSYNC filter atomically to all threads when it returns 0. Trusted: kernel contract stub, engine, solvers.",
            "SMT-based symbolic execution of the loader with a symbolic flag word (z3 + cvc5); schedules discharged by assumption on the kernel"),
    "C11": (MC, "4 (C11)",
            "Scheduling model: the OS thread of each syscall is an arbitrary symbolic value unless the goroutine has been locked to its thread since the previous syscall. On the call trace of the real LoadFilter SMT decides: NoNewPrivs => exactly one prctl(38,1,0,0,0), strictly before seccomp, on the same thread for every thread assignment; not requested => no prctl; unprivileged caller without the bit => error. The obligations are per call: instances with a history (an earlier SetNoNewPrivs / LoadFilter / Supported in the same process, possibly on another thread) decide that a request for the bit is honoured on the installing thread whatever happened before.",
            "The Go scheduler is represented by its only observable effect here (which thread runs each syscall); runtime.LockOSThread is modelled as pinning. Trusted: stub incl. per-thread no_new_privs ghost bit, engine, solvers.",
            "SMT-based symbolic execution of the loader over a symbolic thread-assignment model (z3 + cvc5)"),
    "C12": (MC, "4 (C12)",
            "The real initialisers (table literals, invert, the architecture map) are interpreted from SSA and the resulting maps are queried with symbolic keys: one SMT query per table decides the mutual-inverse obligation for every (name, number) pair, one that no name has two numbers, one per (table, oracle source) that every common name has the oracle's number; GetInfo is executed symbolically on arbitrary spellings (case handled by an uninterpreted lower()); audit ids are compared with linux/audit.h. The space is finite (about 2000 entries); the solver's contribution is that one query covers all entries and all spellings.",
            "Trusted: vendored oracle data (/verif/oracle, provenance inside), equality-atom string encoding, engine, solvers. Names no oracle lists are not compared.",
            "SMT queries with symbolic keys over the interpreted real tables (go/ssa symbolic execution, z3 + cvc5)"),
    "C13": (MC, "4 (C13)",
            "Determinism: the real compiler is run twice per shape under opposite iteration orders of every map it ranges over and SMT decides term-wise equality of the instruction lists for all values. Side effects and races: a write monitor over everything reachable from the caller's policy (spare capacity, slices shared with a twin) and over all package state must stay empty on every path of Assemble, GetInfo and the text conversions; with private write sets the DRF argument gives race freedom and independence for any number of goroutines - interleavings are reduced away, not explored. Memory handed to a sync.Pool is covered by the same reduction: an access of the former owner after Put that conflicts with an access of the next owner after Get is reported (the two are unordered under another schedule). Text forms of symbolic flag/action words are equal under both map orders, and equal before and after every conversion of two other symbolic words in the same process (a memo or buffer left behind by an earlier conversion must not show).",
            "Trusted: the engine's write monitor and map-order model; the DRF reduction (Go memory model). Native replay runs the compilations concurrently under the race detector, then 40 more times alternating on one processor (so that pooled objects change hands).",
            "SMT-based symbolic execution with map order as an input plus a write-set (non-interference) analysis (z3 + cvc5)"),
    "C14": (MC, "4 (C14)",
            "Parsers/printers: the real Action.Unpack, Operation.Unpack, String and MarshalText are executed symbolically on an arbitrary string (equality atom; case through an uninterpreted lower()) under both iteration orders of the name map; SMT decides 'Unpack succeeds with a iff lower(s) is a's documented name' for ALL strings (so no unknown spelling maps to any action, in particular not to allow), round trips for all named values, and that unknown values print no documented name. Text forms: only key agreement is decided - config, yaml and json tag of every exported field of the four policy structs (read from go/types of the current source) must coincide; a disagreement is confirmed by a native marshal/load round trip. Both parsers are additionally run on byte-vector strings (every length up to 14 / 16 seven-bit ASCII characters), which decides code that inspects length, prefixes or single characters - bounded, unlike the atom encoding.",
            "NOT decided: the behaviour of go-ucfg, yaml.v2, encoding/json (reflection): quoting, defaults, numeric fidelity of 64-bit operands (JSON path rounds above 2^53 - observed, outside the claim). Assumes the libraries' tag contract.",
            "SMT-based symbolic execution of the parsers over all strings (equality atoms + uninterpreted lower(), z3 + cvc5); struct-tag agreement from go/types"),
    "C19": (MC, "4 (C19)",
            "The module is loaded and SSA-built under each GOOS/GOARCH pair (quick 14, thorough all of 'go tool dist list'). Per target: the 15 exported constants as go/types evaluates them equal the UAPI oracle (errno per Linux architecture); on targets whose GOARCH has a table the real compiler, executed from that target's SSA, yields program signatures identical to linux/amd64's for the same table and byte order and satisfies the SMT-decided equivalence obligations on a sample of shapes; on stub targets Supported/LoadFilter/SetNoNewPrivs make no call that leaves the library and report unsupported; a policy without explicit architecture is rejected with an error and no program on every target without a table.",
            "Findings on foreign targets cannot be replayed natively on this host (engine results only). Program obligations apply only where a policy can be compiled through the public API (GOARCH amd64/386/arm/arm64). Trusted: go/packages+go/types, engine, oracle constants, solvers.",
            "per-build-target go/types constant evaluation + SMT-based symbolic execution of each target's SSA (z3 + cvc5)"),
    "C15": (MC, "4 (C15)",
            "The real main() of cmd/sandbox is executed symbolically over every combination of failures of its environment (missing/malformed file, unpack error, parser error with or without a returned pointer, unknown syscall, every kernel answer below the real LoadFilter, exec failure; argv of 0..3): on every path exec happens only after a successful parse and a successful load, with the parsed policy, TSYNC and the flag's no_new_privs, and any failure ends in a non-zero exit without exec. However the command gets at the file (yaml.NewConfigWithFile, or os.ReadFile / os.Open + io.ReadAll, possibly behind io.LimitReader, then yaml.NewConfig), the file has a symbolic length and the target must not be run under a configuration made from less than the whole file. Control flow is concrete per path, so the solver's role is path feasibility (kernel answers); the coverage is the exhaustive set of failure combinations.",
            "Stubs for flag, go-ucfg, os/io file reading, exec, os.Exit (contract: fail or deliver). That the filter survives execve and what the target observes is kernel behaviour, outside.",
            "symbolic execution of the real main() over all environment-failure combinations (go/ssa engine; z3 + cvc5 for path feasibility)"),
    "C16": (MC, "4 (C16)",
            "The real Parse/parseX86_64 run over L <= 2/3 symbolic lines delivered by a model scanner that may stop anywhere with or without an error. A line is an SMT string constrained only by regular-language memberships derived from the literals the current source uses; z3 5.1 decides each path's feasibility and obligations for ALL line contents: no panic, read failure => error and no partial result, findSyscallNum is only given lines of the current function and ALL of them since the previous syscall site (window completeness), every reported syscall is in the table under its name, appended lines never remove earlier results. Long listings: the symbolic lines are additionally separated by concrete filler instructions (600 in quick; 127..1025 at ten sizes around powers of two, and fillers in front, in thorough), so windows, counters and buffers of a few hundred or thousand lines are crossed. The scanner model stops with no error, an arbitrary error, or bufio.ErrTooLong (Scanner.Buffer moves the limit, it does not remove it).",
            "findSyscallNum (regexp + ParseInt) is summarised as 'arbitrary number or error'; alphabet = printable ASCII + space + tab; L symbolic lines bounded (no induction over the number of lines; filler lines are concrete). String obligations are decided by z3 5.1.0 alone (no cross-check).",
            "SMT string/regular-language solving over symbolic lines with the real parser executed from go/ssa (z3 5.1)"),
    "C17": (MC, "4 (C17)",
            "The real doObjdump is executed twice over a model file system whose file contents are SMT strings. Run 1 may crash at any stub call (every file open for writing keeps a symbolic-length prefix of what was written) or its disassembler may fail after a prefix; run 2 is uninterrupted, for the same or another binary. z3 decides for all hashes, disassembly texts and crash prefixes: whenever run 2 returns a path, the file there is hash + newline + the complete disassembly; otherwise it returned an error. 'Same profile as a cold cache' follows because the profile is a function of that file. Disassembler failures are an *exec.ExitError with any exit code (-1: killed by a signal) or another error. The cache key is covered by a lemma on the real hashBinary (model hash, failing open/read): without an error it returns the digest of the whole binary or nothing of 64 characters; the two-run instances cover any 64-hex-digit key and the empty key in either run. The model file system has realistic names (cache file <base>-<hash>, temporaries <that>.tmp<n>); filepath.Glob runs the real matching over them, io.ReadFull goes through the Read model, and after a crash point nothing is removed, renamed or written any more (a dead process runs no deferred calls).",
            "Crash model: a process crash leaves a prefix of the sequentially written data, rename is atomic; no power-loss/fsync reasoning, no concurrent runs. File system, bufio.Writer and exec are harness models (~200 lines). String queries are decided by z3 4.8.12 / 5.1.0 (first definite answer, no independent cross-check).",
            "SMT string solving (concatenation/prefix/length classes) over a two-run history of the real cache code with symbolic crash points (z3)"),
    "C18": (MC, "4 (C18)",
            "The real main() of the profiler (dedup map, filterBlacklist, addWhitelist, sort, output selection) is executed symbolically with k <= 2/3 discovered syscalls (quick additionally (k,nb,na) = (2,2,0) and (1,0,2)) whose numbers are symbolic keys of the real table and blacklist/allow-list entries that are arbitrary strings; symbolic-key map updates fork over equality patterns and maps are iterated in both orders. For a fresh symbolic string x SMT decides x in out <=> (found and not blacklisted) or (allowed and a table name), duplicate-freedom, table membership, that the emitted slice is the one sort.Strings was last applied to, and that the captured policy is {errno, [{allow, out}]}.",
            "sort.Strings is summarised (equality atoms carry no order): sortedness is 'emitted slice == last sorted slice, unmodified'. Loading the emitted YAML back is argued by composition (C14 key agreement + C01), not executed through yaml.v2. Stubs for everything up to ExtractSyscalls and for output.",
            "SMT-based symbolic execution of the real main() with symbolic table keys and equality-atom strings (z3 + cvc5)"),
}

NOT_BUILT = "check not built yet (work in progress)"
NA = {}

def main():
    checks = []
    for pid in PROPS:
        if pid not in CHECKS:
            continue
        level, ref, text, note, tech = CHECKS[pid]
        checks.append({
            "property_id": pid,
            "quick_cmd": f"./bin/verif check {pid} --tier quick",
            "thorough_cmd": f"./bin/verif check {pid} --tier thorough",
            "evidence_file": f"/verif/evidence/{pid}.json",
            "replay_cmd_template": "./bin/verif replay {path}",
            "engine": "gosym",
            "level_claimed": {"category": level, "text": text, "design_ref": "DESIGN.md section " + ref},
            "level_note": note,
            "technique": tech,
        })
    na = [{"property_id": p, "reason": NA.get(p, NOT_BUILT)} for p in PROPS if p not in CHECKS]
    m = {
        "version": 1,
        "setup_cmd": "cd /verif/engine && GOFLAGS=-mod=mod GOPROXY=off GOSUMDB=off GOTOOLCHAIN=local go build -o ../bin/verif ./cmd/verif",
        "hooks": {
            "guard": "verif",
            "enable": "no source hooks: harnesses are injected as /repo/<pkg>/zz_verif_*.go through packages.Config.Overlay (engine) and go test -overlay (native replay); the guard tag is declared but unused",
            "baseline_off_cmd": "cd /repo && go test -vet=off -count=1 ./...",
            "source_commits": [],
            "add_only": True,
        },
        "engines": [{"name": "gosym", "path": "/verif/engine", "serves_properties": sorted(CHECKS),
                     "kind_free_text": "symbolic interpreter for go/ssa emitting SMT-LIB2 (bit-vectors, equality atoms, strings), decided by z3 4.8.12 / z3 5.1.0 / cvc5 1.0.3; every model replayed natively against the real build"}],
        "checks": checks,
        "not_applicable": na,
        "notes": "Exit codes: 0 holds within the stated bounds (or only listed known findings), 1 reproduced violation (VIOLATION line), 2 inconclusive/machinery error (no VIOLATION line). known_findings.json lists repaired defects (status fixed; there are no open ones). './bin/verif selftest [--kernel]' validates the translator and the oracles (engine vs native build on concrete vectors; kernel model vs x/net/bpf VM, reference decision and the running kernel). Thorough tiers were each run clean on the repaired tree (logs and evidence copies under thorough_runs/); the long ones take 35-45 min (C03, C06, C16). DESIGN.md section 0 is the status after the build.",
    }
    json.dump(m, open("/verif/MANIFEST.json", "w"), indent=1)
    print("claimed:", sorted(CHECKS), "not applicable:", [x["property_id"] for x in na])

if __name__ == "__main__":
    main()
