#!/usr/bin/env python3
"""Development-time kill matrix: applies each mutant (a textual replacement) to a scratch
worktree of /repo, keeps it only if the unedited suite still passes, runs the named checks
against the worktree (verif check --repo) and records who reports it.
Usage: killmatrix.py [name-substring]"""
import subprocess, sys, json, os, time
WT = "/tmp/wtk"
ENV = dict(os.environ, GOFLAGS="-mod=mod", GOPROXY="off", GOSUMDB="off", GOTOOLCHAIN="local")
def sh(cmd, cwd=None, timeout=1800):
    p = subprocess.run(cmd, shell=True, cwd=cwd, env=ENV, capture_output=True, text=True, timeout=timeout)
    return p.returncode, p.stdout + p.stderr
M = []
def mut(name, file, old, new, checks, count=1):
    M.append(dict(name=name, file=file, old=old, new=new, checks=checks, count=count))

# ---- C01
mut("C01-only-first-group", "filter.go", "for _, group := range p.Syscalls {\n\t\tif group.arch == nil {", "for _, group := range p.Syscalls[:1] {\n\t\tif group.arch == nil {", ["C01", "C05"])
mut("C01-eperm-on-trap", "assembler.go", "if action == ActionErrno {", "if action == ActionErrno || action == ActionTrap {", ["C01"])
mut("C01-prev-group-action", "filter.go", "\t\tprog.SetLabel(actions[i])\n\t\tprog.Ret(group.Action)", "\t\tprog.SetLabel(actions[i])\n\t\tif i > 1 {\n\t\t\tgroup = p.Syscalls[i-1]\n\t\t}\n\t\tprog.Ret(group.Action)", ["C01"])
mut("C01-drop-seccompmask", "filter.go", "syscall := uint32(num | g.arch.SeccompMask)\n\t\t\tif getSyscall", "syscall := uint32(num)\n\t\t\tif getSyscall", ["C01"])
# ---- C02
mut("C02-ldhi-le-plus8", "assembler.go", "if nativeEndian == binary.LittleEndian {\n\t\toffset += uint32(sizeOfUint32)", "if nativeEndian == binary.LittleEndian {\n\t\toffset += uint32(sizeOfUint32) * 2", ["C02", "C05"])
mut("C02-ldlo-both-orders", "assembler.go", "if nativeEndian == binary.BigEndian {\n\t\toffset += uint32(sizeOfUint32)\n\t}", "offset += uint32(sizeOfUint32)", ["C02"])
mut("C02-ge-high-half", "filter.go", "} else if c.Operation == GreaterOrEqual {\n\t\t\t\t// Arg_hi >= Val_hi || (Arg_hi == Val_hi && Arg_lo >= Val_lo)\n\t\t\t\tp.LdHi(c.Argument)\n\t\t\t\tp.JmpIfTrue(bpf.JumpGreaterThan,", "} else if c.Operation == GreaterOrEqual {\n\t\t\t\t// Arg_hi >= Val_hi || (Arg_hi == Val_hi && Arg_lo >= Val_lo)\n\t\t\t\tp.LdHi(c.Argument)\n\t\t\t\tp.JmpIfTrue(bpf.JumpGreaterOrEqual,", ["C02"])
mut("C02-shift31", "filter.go", "p.JmpIfTrue(bpf.JumpBitsSet, uint32(c.Value>>32), match)", "p.JmpIfTrue(bpf.JumpBitsSet, uint32(c.Value>>31), match)", ["C02"])
# ---- C03
mut("C03-no-merge-same-name", "filter.go", "\t\t\t\t\tcheck.Conditions = append(check.Conditions, nc.Conditions)", "\t\t\t\t\tif len(check.Conditions) < 2 {\n\t\t\t\t\t\tcheck.Conditions = append(check.Conditions, nc.Conditions)\n\t\t\t\t\t}", ["C03"])
mut("C03-islast-first", "filter.go", "isLast := i == len(conditions)-1", "isLast := i == len(conditions)-1 || (i == 1 && len(conditions) == 3)", ["C03"])
mut("C03-no-reload-nr", "filter.go", "\tp.LdNr()\n\tp.SetLabel(nextSyscall)", "\tif len(s.Conditions) < 2 {\n\t\tp.LdNr()\n\t}\n\tp.SetLabel(nextSyscall)", ["C03"])
# ---- C04
mut("C04-x32-gt", "filter.go", "bpf.JumpIf{Cond: bpf.JumpGreaterOrEqual, Val: uint32(arch.X32.SeccompMask), SkipFalse: 1}", "bpf.JumpIf{Cond: bpf.JumpGreaterThan, Val: uint32(arch.X32.SeccompMask), SkipFalse: 1}", ["C04"])
mut("C04-jumpN-offbyone-long", "filter.go", "program = append(program, bpf.Jump{Skip: uint32(jumpN)})", "program = append(program, bpf.Jump{Skip: uint32(jumpN) - 1})", ["C04"])
mut("C04-jumpN-boundary", "filter.go", "if jumpN <= 255 {", "if jumpN <= 256 {", ["C04", "C05"])
# ---- C05
mut("C05-validate-gt6", "filter.go", "condition.Argument < 0 || condition.Argument > 5", "condition.Argument < 0 || condition.Argument > 6", ["C05", "C07"])
mut("C05-foreign-ret", "filter.go", "bpf.RetConstant{Val: uint32(ActionErrno) | uint32(errnoENOSYS)}", "bpf.RetConstant{Val: uint32(ActionErrno) | uint32(errnoENOSYS) | 0x100}", ["C05", "C04"])
# ---- C06
mut("C06-maxindex-256", "assembler.go", "maxIndex := currentJump.index + 255", "maxIndex := currentJump.index + 256", ["C06"])
mut("C06-skipn-ge", "assembler.go", "if skipN > math.MaxUint8 {", "if skipN > math.MaxUint8+1 {", ["C06"])
mut("C06-no-label-update", "assembler.go", "\t\t\tif v[i] >= after {\n\t\t\t\tv[i]++\n\t\t\t}", "\t\t\tif v[i] > after {\n\t\t\t\tv[i]++\n\t\t\t}", ["C06"])
mut("C06-single-pass", "assembler.go", "\t\tif len(p.instructions) == size {\n\t\t\treturn p.instructions, nil\n\t\t}", "\t\tif len(p.instructions) == size || len(p.jumps) > 40 {\n\t\t\treturn p.instructions, nil\n\t\t}", ["C06", "C03"])
# ---- C07
mut("C07-no-dup-detect", "filter.go", "\t\t\t\tproblems = append(problems, fmt.Sprintf(\"found duplicate syscall %v\", name))", "\t\t\t\t_ = name", ["C07"])
mut("C07-no-condboth", "filter.go", "\t\t\t\t\tproblems = append(problems, fmt.Sprintf(\"found conditional and unconditional check: %v\", nc.Name))", "\t\t\t\t\t_ = check", ["C07"])
mut("C07-accept-empty", "filter.go", "if len(p.Syscalls) == 0 {\n\t\treturn errors.New(\"syscalls must not be empty\")\n\t}", "if p.Syscalls == nil {\n\t\treturn errors.New(\"syscalls must not be empty\")\n\t}", ["C07"])
mut("C07-op-valid-prefix", "filter.go", "\t\tif name == o {\n\t\t\treturn true\n\t\t}", "\t\tif name == o || o == \"\" {\n\t\t\treturn true\n\t\t}", ["C07"])
# ---- C08
mut("C08-k-plus1", "seccomp_linux.go", "\t\t\tK:    instruction.K,", "\t\t\tK:    instruction.K + uint32(len(filter)/300),", ["C08"])
mut("C08-len-minus", "seccomp_linux.go", "Len:    uint16(len(sockFilter)),", "Len:    uint16(len(sockFilter) - len(sockFilter)/200),", ["C08"])
mut("C08-swap-jt-jf", "seccomp_linux.go", "\t\t\tJt:   instruction.Jt,\n\t\t\tJf:   instruction.Jf,", "\t\t\tJt:   instruction.Jf,\n\t\t\tJf:   instruction.Jt,", ["C08"])
# ---- C09
mut("C11-ignore-prctl-err", "seccomp_linux.go", "\t\tif err = SetNoNewPrivs(); err != nil {\n\t\t\treturn fmt.Errorf(\"failed to set no_new_privs with prctl: %w\", err)\n\t\t}", "\t\tif err = SetNoNewPrivs(); err != nil && err != syscall.EINVAL {\n\t\t\treturn fmt.Errorf(\"failed to set no_new_privs with prctl: %w\", err)\n\t\t}", ["C11"])
mut("C09-eacces-nil", "seccomp_linux.go", "\tif e != 0 {\n\t\treturn e\n\t}\n\tif r1 != 0 {", "\tif e != 0 && !(e == syscall.EACCES && flags&FilterFlagLog != 0) {\n\t\treturn e\n\t}\n\tif r1 != 0 {", ["C09"])
mut("C09-supported-flags0", "seccomp_linux.go", "seccomp(seccompSetModeStrict, 1, nil)", "seccomp(seccompSetModeStrict, 0, nil)", ["C09"])
mut("C09-r1-only-small", "seccomp_linux.go", "\tif r1 != 0 {", "\tif r1 != 0 && r1 < 1<<22 {", ["C09", "C10"])
# ---- C10
mut("C10-mask-log", "seccomp_linux.go", "syscall.Syscall(unix.SYS_SECCOMP, op, uintptr(flags), uintptr(uargs))", "syscall.Syscall(unix.SYS_SECCOMP, op, uintptr(flags&^0x8), uintptr(uargs))", ["C10"])
# ---- C11
mut("C11-unlock-early", "seccomp_linux.go", "\tif err = seccomp(seccompSetModeFilter,", "\truntime.UnlockOSThread()\n\tif err = seccomp(seccompSetModeFilter,", ["C11"])
mut("C11-lock-only-tsync", "seccomp_linux.go", "\truntime.LockOSThread()\n\tdefer runtime.UnlockOSThread()", "\tif filter.Flag&FilterFlagTSync == 0 {\n\t\truntime.LockOSThread()\n\t\tdefer runtime.UnlockOSThread()\n\t}", ["C11"])
# ---- C12
mut("C12-changed-number", "arch/zsyscalls.go", "\t318: \"getrandom\",\n\t319: \"memfd_create\",", "\t319: \"getrandom\",\n\t318: \"memfd_create\",", ["C12"], count=2)
mut("C12-alias-wrong", "arch/info.go", "\t\"arm64\":   AARCH64,", "\t\"arm64\":   ARM,", ["C12"])
mut("C12-no-tolower", "arch/info.go", "name = strings.ToLower(name)", "_ = strings.ToLower(name)", ["C12"])
# ---- C13
mut("C13-memoise-global", "filter.go", "func (p *Policy) Validate() error {", "var validated = map[Action]bool{}\n\nfunc (p *Policy) Validate() error {\n\tvalidated[p.DefaultAction] = true", ["C13"])
mut("C13-action-string-order", "filter.go", "\tname, found := actionNames[a]\n\tif found {\n\t\treturn name\n\t}\n\treturn \"unknown\"", "\tfor k, name := range actionNames {\n\t\tif k&a == k && k != 0 {\n\t\t\treturn name\n\t\t}\n\t}\n\tname, found := actionNames[a]\n\tif found {\n\t\treturn name\n\t}\n\treturn \"unknown\"", ["C13", "C14"])
# ---- C14
mut("C14-unknown-allow", "filter.go", "\treturn fmt.Errorf(\"invalid action: %v\", s)", "\tif s == \"permit\" {\n\t\t*a = ActionAllow\n\t\treturn nil\n\t}\n\treturn fmt.Errorf(\"invalid action: %v\", s)", ["C14"])
mut("C14-tag-names", "filter.go", "`config:\"names\"  json:\"names\"  yaml:\"names\"`", "`config:\"names\"  json:\"names\"  yaml:\"name\"`", ["C14"])
# ---- C15
mut("C15-no-exit-on-load-error", "cmd/sandbox/main.go", "\t\tfmt.Fprintf(os.Stderr, \"error loading filter: %v\\n\", err)\n\t\tos.Exit(1)", "\t\tfmt.Fprintf(os.Stderr, \"error loading filter: %v\\n\", err)", ["C15"])
mut("C15-nnp-hardcoded", "cmd/sandbox/main.go", "NoNewPrivs: noNewPrivs,", "NoNewPrivs: true,", ["C15"])
# ---- C16
mut("C16-no-reset-at-text", "cmd/seccomp-profiler/disasm/disasm.go", "\t\t\tinstructions = instructions[:0]\n\t\t\tcontinue", "\t\t\tcontinue", ["C16"])
mut("C16-partial-on-error", "cmd/seccomp-profiler/disasm/disasm.go", "\tif err := s.Err(); err != nil {\n\t\treturn nil, fmt.Errorf(\"failed to read objdump file: %v\", err)", "\tif err := s.Err(); err != nil && len(syscalls) == 0 {\n\t\treturn nil, fmt.Errorf(\"failed to read objdump file: %v\", err)", ["C16"])
# ---- C17
mut("C17-write-in-place", "cmd/seccomp-profiler/main.go", "os.CreateTemp(filepath.Dir(dumpFile), filepath.Base(dumpFile)+\".tmp\")", "os.Create(dumpFile)", ["C17"])
mut("C17-rename-before-flush", "cmd/seccomp-profiler/main.go", "\tif err = out.Flush(); err != nil {\n\t\treturn \"\", err\n\t}\n\tif err = f.Close(); err != nil {\n\t\treturn \"\", err\n\t}\n\tif err = os.Rename(f.Name(), dumpFile); err != nil {\n\t\treturn \"\", err\n\t}", "\tif err = os.Rename(f.Name(), dumpFile); err != nil {\n\t\treturn \"\", err\n\t}\n\tif err = out.Flush(); err != nil {\n\t\treturn \"\", err\n\t}\n\tif err = f.Close(); err != nil {\n\t\treturn \"\", err\n\t}", ["C17"])
# ---- C18
mut("C18-blacklist-after-union", "cmd/seccomp-profiler/main.go", "\tif len(blacklist) > 0 {\n\t\tvar filtered []string\n\t\tnames, filtered = filterBlacklist(names)\n\t\tlog.Printf(\"Filtered %d blacklisted syscalls (%v)\", len(m)-len(names), strings.Join(filtered, \", \"))\n\t}\n\tif len(allowList) > 0 {\n\t\tsize := len(names)\n\t\tvar added []string\n\t\tnames, added = addWhitelist(archInfo, names)\n\t\tlog.Printf(\"Added %d allowed syscalls (%v)\", len(names)-size, strings.Join(added, \", \"))\n\t}\n\tsort.Strings(names)", "\tsort.Strings(names)\n\tif len(blacklist) > 0 {\n\t\tvar filtered []string\n\t\tnames, filtered = filterBlacklist(names)\n\t\tlog.Printf(\"Filtered %d blacklisted syscalls (%v)\", len(m)-len(names), strings.Join(filtered, \", \"))\n\t}\n\tif len(allowList) > 0 {\n\t\tsize := len(names)\n\t\tvar added []string\n\t\tnames, added = addWhitelist(archInfo, names)\n\t\tlog.Printf(\"Added %d allowed syscalls (%v)\", len(names)-size, strings.Join(added, \", \"))\n\t}", ["C18"])
mut("C18-allow-not-validated", "cmd/seccomp-profiler/main.go", "\t\tif _, found := archInfo.SyscallNames[s]; found {\n\t\t\t_, found := m[s]", "\t\tif _, found := archInfo.SyscallNames[s]; found || len(allowList) > 1 {\n\t\t\t_, found := m[s]", ["C18"])
# ---- C19
mut("C19-other-log-const", "internal/unix/types_other.go", "SECCOMP_RET_LOG          = 0x7ffc0000", "SECCOMP_RET_LOG          = 0x7ffd0000", ["C19"])
mut("C19-stub-supported-true", "seccomp_unsupported.go", "func Supported() bool {\n\treturn false", "func Supported() bool {\n\treturn true", ["C19"])

def main():
    sel = sys.argv[1] if len(sys.argv) > 1 else ""
    sh("git -C /repo worktree remove --force %s" % WT)
    rc, out = sh("git -C /repo worktree add -q --detach %s HEAD" % WT)
    results = []
    try:
        for m in M:
            if sel not in m["name"]:
                continue
            sh("git checkout -q -- .", cwd=WT)
            path = os.path.join(WT, m["file"])
            src = open(path).read()
            if src.count(m["old"]) != m["count"]:
                results.append(dict(name=m["name"], status="pattern-not-found(%d)" % src.count(m["old"])))
                print(results[-1]); continue
            open(path, "w").write(src.replace(m["old"], m["new"]))
            rc, out = sh("gofmt -l . >/dev/null; go build ./... && go test -vet=off -count=1 ./...", cwd=WT)
            if rc != 0:
                results.append(dict(name=m["name"], status="not-a-mutant (build/suite fails)", detail=out[-300:]))
                print(results[-1]["name"], results[-1]["status"]); continue
            r = dict(name=m["name"], status="valid", checks={})
            for c in m["checks"]:
                t0 = time.time()
                rc, out = sh("./bin/verif check %s --tier quick --repo %s --no-evidence" % (c, WT), cwd="/verif")
                viol = [l for l in out.splitlines() if l.startswith("VIOLATION")]
                r["checks"][c] = dict(exit=rc, violations=len(viol), wall_s=round(time.time() - t0), first=(viol[0] if viol else out.strip().splitlines()[-3:] ))
            r["killed"] = any(v["exit"] == 1 for v in r["checks"].values())
            results.append(r)
            print(r["name"], "KILLED" if r["killed"] else "SURVIVED", {c: v["exit"] for c, v in r["checks"].items()})
    finally:
        sh("git -C /repo worktree remove --force %s" % WT)
    out = "/verif/mutants/killmatrix%s.json" % (("-" + sel) if sel else "")
    json.dump(results, open(out, "w"), indent=1)
    k = sum(1 for r in results if r.get("killed")); v = sum(1 for r in results if r["status"] == "valid")
    print("killed %d of %d valid mutants" % (k, v))
main()
