#!/usr/bin/env python3
"""Confirms an independently written breaking change and runs the checks against it.
usage: seedcheck.py <id> <property> <patch> <demo-file> <demo-rel-dir> <run-regex> <needs> -- <check>...
       seedcheck.py --again <id> -- <check>...      (re-run a kept change from /verif/seeded/<id>)"""
import subprocess, sys, os, json, shutil, time
ENV = dict(os.environ, GOFLAGS="-mod=mod", GOPROXY="off", GOSUMDB="off", GOTOOLCHAIN="local")
def sh(cmd, cwd=None, timeout=3600):
    p = subprocess.run(cmd, shell=True, cwd=cwd, env=ENV, capture_output=True, text=True, timeout=timeout)
    return p.returncode, p.stdout + p.stderr
if sys.argv[1] == "--again":
    sid = sys.argv[2]
    d0 = "/verif/seeded/" + sid
    m0 = json.load(open(d0 + "/meta.json"))
    prop, needs, reldir, runre = m0["property"], m0["needs_to_manifest"], m0["demo_dir"], m0["demo_run"]
    # a private scratch directory per change: several changes may be re-run in parallel
    os.makedirs("/tmp/seed_again/" + sid, exist_ok=True)
    patch = "/tmp/seed_again/%s/change.patch" % sid
    shutil.copy(d0 + "/patch.diff", patch)
    txt = [f for f in os.listdir(d0) if f.endswith("_test.go.txt")][0]
    demo = "/tmp/seed_again/%s/%s" % (sid, txt[:-4])
    shutil.copy(d0 + "/" + txt, demo)
else:
    sid, prop, patch, demo, reldir, runre, needs = sys.argv[1:8]
checks = sys.argv[sys.argv.index("--") + 1:]
wt = "/tmp/sv_" + sid
sh("git -C /repo worktree remove --force " + wt)
rc, out = sh("git -C /repo worktree add -q --detach %s HEAD" % wt); assert rc == 0, out
meta = dict(id=sid, property=prop, needs_to_manifest=needs, demo_dir=reldir, demo_run=runre, base_commit=sh("git -C /repo rev-parse --short HEAD")[1].strip(), ran=[])
def rec(what, rc, out):
    meta["ran"].append(dict(cmd=what, exit=rc, tail=out.strip().splitlines()[-3:]))
    print("  [%s] exit=%d %s" % (what, rc, (out.strip().splitlines() or [''])[-1][:160]))
try:
    demodst = os.path.join(wt, reldir, os.path.basename(demo))
    pkg = "./" + reldir if reldir != "." else "."
    shutil.copy(demo, demodst)
    rc, out = sh("go test -vet=off -count=1 -run '%s' %s" % (runre, pkg), cwd=wt); rec("demo on unmodified tree", rc, out); ok = rc == 0
    os.remove(demodst)
    rc, out = sh("git apply " + patch, cwd=wt); rec("git apply", rc, out)
    if rc != 0 and sys.argv[1] == "--again":
        # the tree has moved on since the change was written (a later fix: commit): keep the recorded result
        print(sid, "SKIPPED: patch was written for", m0.get("base_commit"), "and does not apply to the current tree")
        sys.exit(0)
    ok &= rc == 0
    rc, out = sh("go build ./... && go test -vet=off -count=1 ./...", cwd=wt); rec("build + unedited suite with the change", rc, out); ok &= rc == 0
    shutil.copy(demo, demodst)
    rc, out = sh("go test -vet=off -count=1 -run '%s' %s" % (runre, pkg), cwd=wt); rec("demo with the change", rc, out); ok &= rc != 0
    os.remove(demodst)
    meta["confirmed"] = bool(ok)
    meta["checks"] = {}
    for c in checks:
        t0 = time.time()
        rc, out = sh(os.environ.get("VERIF_BIN", "./bin/verif") + " check %s --tier quick --repo %s --no-evidence" % (c, wt) + ((" --verif " + os.environ["VERIF_DIR"]) if os.environ.get("VERIF_DIR") else ""), cwd="/verif")
        viol = [l for l in out.splitlines() if l.startswith("VIOLATION")]
        meta["checks"][c] = dict(exit=rc, violation_lines=len(viol), wall_s=round(time.time() - t0), output_tail=out.strip().splitlines()[-4:])
        print("  check %s: exit=%d violations=%d (%ds)" % (c, rc, len(viol), time.time() - t0))
        if viol:
            rp = viol[0].split("replay=")[1]
            if os.path.exists(rp):
                os.makedirs("/verif/seeded/%s" % sid, exist_ok=True)
                shutil.copy(rp, "/verif/seeded/%s/replay-%s.json" % (sid, c))
    meta["caught_by"] = [c for c, v in meta["checks"].items() if v["exit"] == 1]
    d = "/verif/seeded/" + sid
    os.makedirs(d, exist_ok=True)
    shutil.copy(patch, d + "/patch.diff"); shutil.copy(demo, d + "/" + os.path.basename(demo).replace("_test.go", "_test.go.txt"))
    json.dump(meta, open(d + "/meta.json", "w"), indent=1)
    print(sid, "confirmed" if ok else "NOT CONFIRMED", "caught by", meta["caught_by"])
finally:
    sh("git -C /repo worktree remove --force " + wt)
