#!/bin/bash
# Thorough sweep from a snapshot of /verif (vp run): builds the binary there and writes logs and evidence into the
# snapshot, so that /verif can be edited meanwhile. usage: thorough_snapshot.sh C01 C02 ...
export GOFLAGS=-mod=mod GOPROXY=off GOSUMDB=off GOTOOLCHAIN=local
here=$PWD
(cd engine && go build -o ../bin/verif ./cmd/verif) || exit 2
mkdir -p thorough_runs evidence
for c in "$@"; do
  start=$(date +%s)
  timeout 14400 ./bin/verif check $c --tier thorough --verif $here > thorough_$c.out 2>&1
  code=$?
  end=$(date +%s)
  tail -15 thorough_$c.out > thorough_runs/$c.log
  echo "exit=$code wall=$((end-start))s" >> thorough_runs/$c.log
  cp evidence/$c.json thorough_runs/$c.evidence.json 2>/dev/null
  echo "$c exit=$code wall=$((end-start))s"
done
