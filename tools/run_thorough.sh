#!/bin/bash
# Runs every thorough check once on /repo, keeps the log tail and the evidence under thorough_runs/.
cd /verif
for c in "$@"; do
  start=$(date +%s)
  timeout 14400 ./bin/verif check $c --tier thorough > /tmp/thorough_$c.out 2>&1
  code=$?
  end=$(date +%s)
  tail -15 /tmp/thorough_$c.out > thorough_runs/$c.log
  echo "exit=$code wall=$((end-start))s" >> thorough_runs/$c.log
  cp evidence/$c.json thorough_runs/$c.evidence.json 2>/dev/null
  echo "$c exit=$code wall=$((end-start))s"
done
