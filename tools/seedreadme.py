#!/usr/bin/env python3
"""Regenerates the table of /verif/seeded/README.md from the meta.json files (the prose around it is kept)."""
import json, glob, os
rows = []
for d in sorted(glob.glob('/verif/seeded/S*')):
    m = json.load(open(d + '/meta.json'))
    ch = m.get('checks', {})
    rep = ', '.join('%s (%ds)' % (c, v['wall_s']) for c, v in ch.items() if v['exit'] == 1) or '**none**'
    notrep = ', '.join(('%s (inconclusive)' % c) if v['exit'] == 2 else c for c, v in ch.items() if v['exit'] != 1) or '-'
    rows.append('| %s | %s | %s | %s | %s | %s |' % (m['id'], m['property'], m['needs_to_manifest'].replace('|', '\\|'), 'yes' if m.get('confirmed') else 'NO', rep, notrep))
p = '/verif/seeded/README.md'
lines = open(p).read().split('\n')
first = next(i for i, l in enumerate(lines) if l.startswith('| S'))
last = max(i for i, l in enumerate(lines) if l.startswith('| S'))
lines[first:last + 1] = rows
open(p, 'w').write('\n'.join(lines))
print(len(rows), 'rows')
