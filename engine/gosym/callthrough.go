package gosym

// Call-through for pure library functions: when every argument of a call into
// an uninterpreted package is concrete, the real function is run (by
// reflection) and its result converted back. This never applies to symbolic
// arguments (those need a hand-written model in host.go or end the run as
// unmodelled), and never to functions with effects.

import (
	"bytes"
	"encoding/hex"
	"math/bits"
	"path"
	"path/filepath"
	"reflect"
	"sort"
	"strconv"
	"strings"
	"unicode"

	"golang.org/x/tools/go/ssa"

	"verif/engine/sym"
)

var pureFuncs = map[string]interface{}{
	"strings.ToUpper": strings.ToUpper, "strings.ToLower": strings.ToLower, "strings.Title": strings.Title,
	"strings.Split": strings.Split, "strings.SplitN": strings.SplitN, "strings.Fields": strings.Fields,
	"strings.Index": strings.Index, "strings.IndexByte": strings.IndexByte, "strings.IndexRune": strings.IndexRune,
	"strings.IndexAny": strings.IndexAny, "strings.LastIndex": strings.LastIndex, "strings.LastIndexByte": strings.LastIndexByte,
	"strings.Replace": strings.Replace, "strings.ReplaceAll": strings.ReplaceAll, "strings.Repeat": strings.Repeat,
	"strings.Trim": strings.Trim, "strings.TrimLeft": strings.TrimLeft, "strings.TrimRight": strings.TrimRight,
	"strings.TrimSuffix": strings.TrimSuffix, "strings.TrimPrefix": strings.TrimPrefix, "strings.TrimSpace": strings.TrimSpace,
	"strings.Count": strings.Count, "strings.Compare": strings.Compare, "strings.Contains": strings.Contains,
	"strings.ContainsAny": strings.ContainsAny, "strings.ContainsRune": strings.ContainsRune,
	"strings.HasPrefix": strings.HasPrefix, "strings.HasSuffix": strings.HasSuffix, "strings.EqualFold": strings.EqualFold,
	"strings.Join": strings.Join, "strings.Cut": strings.Cut, "strings.CutPrefix": strings.CutPrefix, "strings.CutSuffix": strings.CutSuffix,
	"strconv.Itoa": strconv.Itoa, "strconv.Atoi": strconv.Atoi, "strconv.ParseUint": strconv.ParseUint, "strconv.ParseInt": strconv.ParseInt,
	"strconv.FormatUint": strconv.FormatUint, "strconv.FormatInt": strconv.FormatInt, "strconv.Quote": strconv.Quote,
	"strconv.ParseBool": strconv.ParseBool, "strconv.FormatBool": strconv.FormatBool, "strconv.Unquote": strconv.Unquote,
	"math/bits.OnesCount": bits.OnesCount, "math/bits.OnesCount32": bits.OnesCount32, "math/bits.OnesCount64": bits.OnesCount64,
	"math/bits.LeadingZeros32": bits.LeadingZeros32, "math/bits.LeadingZeros64": bits.LeadingZeros64,
	"math/bits.TrailingZeros32": bits.TrailingZeros32, "math/bits.TrailingZeros64": bits.TrailingZeros64,
	"math/bits.Len": bits.Len, "math/bits.Len32": bits.Len32, "math/bits.Len64": bits.Len64,
	"math/bits.Reverse32": bits.Reverse32, "math/bits.Reverse64": bits.Reverse64,
	"math/bits.ReverseBytes32": bits.ReverseBytes32, "math/bits.ReverseBytes64": bits.ReverseBytes64,
	"math/bits.RotateLeft32": bits.RotateLeft32, "math/bits.RotateLeft64": bits.RotateLeft64,
	"path/filepath.Join": filepath.Join, "path/filepath.Ext": filepath.Ext, "path/filepath.Clean": filepath.Clean,
	"path/filepath.Base": filepath.Base, "path/filepath.Dir": filepath.Dir, "path/filepath.IsAbs": filepath.IsAbs,
	"path/filepath.Match": filepath.Match, "path.Match": path.Match, "path/filepath.Rel": filepath.Rel,
	"path.Join": path.Join, "path.Base": path.Base, "path.Dir": path.Dir, "path.Ext": path.Ext, "path.Clean": path.Clean,
	"unicode.IsUpper": unicode.IsUpper, "unicode.IsLower": unicode.IsLower, "unicode.IsDigit": unicode.IsDigit,
	"unicode.IsLetter": unicode.IsLetter, "unicode.IsSpace": unicode.IsSpace, "unicode.ToUpper": unicode.ToUpper, "unicode.ToLower": unicode.ToLower,
	"bytes.Equal": bytes.Equal, "bytes.Contains": bytes.Contains, "bytes.HasPrefix": bytes.HasPrefix, "bytes.HasSuffix": bytes.HasSuffix,
	"bytes.Compare": bytes.Compare, "bytes.Index": bytes.Index, "bytes.IndexByte": bytes.IndexByte,
	"sort.SearchInts": sort.SearchInts, "sort.SearchStrings": sort.SearchStrings,
	"sort.StringsAreSorted": sort.StringsAreSorted, "sort.IntsAreSorted": sort.IntsAreSorted,
	"encoding/hex.EncodeToString": hex.EncodeToString, "encoding/hex.DecodeString": hex.DecodeString,
}

var errorRT = reflect.TypeOf((*error)(nil)).Elem()

// toGo converts a concrete engine value to a Go value of type t.
func (in *Interp) toGo(v Value, t reflect.Type) (reflect.Value, bool) {
	switch t.Kind() {
	case reflect.String:
		s, ok := v.(string)
		if !ok {
			return reflect.Value{}, false
		}
		return reflect.ValueOf(s).Convert(t), true
	case reflect.Bool:
		b, ok := v.(*sym.Term)
		if !ok || !(b.IsTrue() || b.IsFalse()) {
			return reflect.Value{}, false
		}
		return reflect.ValueOf(b.IsTrue()).Convert(t), true
	case reflect.Int, reflect.Int8, reflect.Int16, reflect.Int32, reflect.Int64:
		x, ok := v.(*sym.Term)
		if !ok || !x.IsConst() {
			return reflect.Value{}, false
		}
		n := x.C
		if w := x.S.W; w < 64 && n&(1<<uint(w-1)) != 0 {
			n |= ^uint64(0) << uint(w)
		}
		r := reflect.New(t).Elem()
		r.SetInt(int64(n))
		return r, true
	case reflect.Uint, reflect.Uint8, reflect.Uint16, reflect.Uint32, reflect.Uint64, reflect.Uintptr:
		x, ok := v.(*sym.Term)
		if !ok || !x.IsConst() {
			return reflect.Value{}, false
		}
		r := reflect.New(t).Elem()
		r.SetUint(x.C)
		return r, true
	case reflect.Slice:
		s, ok := v.(Slice)
		if !ok || s.Len < 0 {
			return reflect.Value{}, false
		}
		if s.Arr == nil {
			return reflect.Zero(t), true
		}
		if s.Arr.Abs != nil || len(s.Arr.Kids) < s.Off+s.Len {
			return reflect.Value{}, false
		}
		r := reflect.MakeSlice(t, s.Len, s.Len)
		for i := 0; i < s.Len; i++ {
			k := s.Arr.Kids[s.Off+i]
			if k.Abs != nil || k.Kids != nil {
				return reflect.Value{}, false
			}
			e, ok := in.toGo(in.load(k), t.Elem())
			if !ok {
				return reflect.Value{}, false
			}
			r.Index(i).Set(e)
		}
		return r, true
	}
	return reflect.Value{}, false
}

// fromGo converts a result back; st is the static result type in the program.
func (in *Interp) fromGo(r reflect.Value, site string) (Value, bool) {
	t := r.Type()
	if t == errorRT {
		if r.IsNil() {
			return Iface{}, true
		}
		return in.newError(site+": "+r.Interface().(error).Error(), nil), true
	}
	switch t.Kind() {
	case reflect.String:
		return r.String(), true
	case reflect.Bool:
		return in.B.Bool(r.Bool()), true
	case reflect.Int:
		if in.WordBits == 32 && r.Int() != int64(int32(r.Int())) {
			return nil, false // the target's int is narrower than the host's
		}
		return in.B.Const(in.WordBits, uint64(r.Int())), true
	case reflect.Uint, reflect.Uintptr:
		if in.WordBits == 32 && r.Uint() != uint64(uint32(r.Uint())) {
			return nil, false
		}
		return in.B.Const(in.WordBits, r.Uint()), true
	case reflect.Int8, reflect.Int16, reflect.Int32, reflect.Int64:
		return in.B.Const(t.Bits(), uint64(r.Int())), true
	case reflect.Uint8, reflect.Uint16, reflect.Uint32, reflect.Uint64:
		return in.B.Const(t.Bits(), r.Uint()), true
	case reflect.Slice:
		if r.IsNil() {
			return Slice{}, true
		}
		switch t.Elem().Kind() {
		case reflect.String:
			ss := make([]string, r.Len())
			for i := range ss {
				ss[i] = r.Index(i).String()
			}
			return in.mkStringSlice(ss), true
		case reflect.Uint8:
			return in.bytesOf(string(r.Bytes())), true
		}
	}
	return nil, false
}

// callThrough runs a registered pure function on concrete arguments.
func (in *Interp) callThrough(name string, fn *ssa.Function, args []Value) (Value, bool) {
	f, ok := pureFuncs[name]
	if !ok {
		return nil, false
	}
	fv := reflect.ValueOf(f)
	ft := fv.Type()
	if ft.NumIn() != len(args) {
		return nil, false
	}
	gargs := make([]reflect.Value, len(args))
	for i, a := range args {
		g, ok := in.toGo(a, ft.In(i))
		if !ok {
			return nil, false
		}
		gargs[i] = g
	}
	var outs []reflect.Value
	panicked := false
	func() {
		defer func() {
			if recover() != nil {
				panicked = true
			}
		}()
		if ft.IsVariadic() {
			outs = fv.CallSlice(gargs) // SSA passes the variadic tail as one slice
		} else {
			outs = fv.Call(gargs)
		}
	}()
	if panicked {
		in.goPanic("panic in " + name)
	}
	site := name + "@" + in.where()
	vals := make([]Value, len(outs))
	for i, o := range outs {
		v, ok := in.fromGo(o, site)
		if !ok {
			return nil, false
		}
		vals[i] = v
	}
	in.Stubs[name+" (call-through)"]++
	switch len(vals) {
	case 0:
		return nil, true
	case 1:
		return vals[0], true
	}
	return Tuple(vals), true
}
