package gosym

import (
	"crypto/md5"
	"crypto/sha1"
	"crypto/sha256"
	"crypto/sha512"
	"fmt"
	"go/types"
	"strings"

	"golang.org/x/tools/go/ssa"

	"verif/engine/sym"
)

// Models for encoding/binary.Write (fixed-size data serialised into byte terms) and the one-shot
// cryptographic digests (sha256.Sum256, ...). A digest of concrete bytes is computed; a digest of
// symbolic bytes is a fresh value constrained to be a FUNCTION of its input and COLLISION-FREE with
// respect to every other digest taken on the path (the assumption anyone using such a digest as a key
// makes; listed in the evidence as an assumption of the run).

type digestRec struct {
	algo string
	in   []*sym.Term
	out  []*sym.Term // bytes
}

func (in *Interp) flattenBinary(v Value, little bool, out *[]*sym.Term) bool {
	switch x := v.(type) {
	case *sym.Term:
		w := 8
		if x.S.K == sym.SBool {
			*out = append(*out, in.B.Ite(x, in.B.Const(8, 1), in.B.Const(8, 0)))
			return true
		}
		w = x.S.W
		n := w / 8
		bs := make([]*sym.Term, n)
		for i := 0; i < n; i++ {
			bs[i] = in.B.Extract(8*i+7, 8*i, x) // bs[0] = least significant
		}
		if !little {
			for i, j := 0, n-1; i < j; i, j = i+1, j-1 {
				bs[i], bs[j] = bs[j], bs[i]
			}
		}
		*out = append(*out, bs...)
		return true
	case *Struct:
		for _, f := range x.F {
			if !in.flattenBinary(f, little, out) {
				return false
			}
		}
		return true
	case *Array:
		for _, f := range x.E {
			if !in.flattenBinary(f, little, out) {
				return false
			}
		}
		return true
	case Slice:
		if x.Len < 0 {
			return false
		}
		for i := 0; i < x.Len; i++ {
			if !in.flattenBinary(in.load(x.Arr.Kids[x.Off+i]), little, out) {
				return false
			}
		}
		return true
	case Ptr:
		if x.C == nil {
			return false
		}
		return in.flattenBinary(in.load(x.C), little, out)
	}
	return false
}

func (in *Interp) byteSlice(bs []*sym.Term) Slice {
	arr := in.newArrayCell(types.Typ[types.Uint8], len(bs))
	for i, b := range bs {
		arr.Kids[i].V = b
	}
	return Slice{Arr: arr, Len: len(bs), Cap: len(bs)}
}

func (in *Interp) digest(algo string, size int, input []*sym.Term) []*sym.Term {
	conc := make([]byte, 0, len(input))
	allConc := true
	for _, b := range input {
		if !b.IsConst() {
			allConc = false
			break
		}
		conc = append(conc, byte(b.C))
	}
	var out []*sym.Term
	if allConc {
		var d []byte
		switch algo {
		case "sha256":
			x := sha256.Sum256(conc)
			d = x[:]
		case "sha224":
			x := sha256.Sum224(conc)
			d = x[:]
		case "sha1":
			x := sha1.Sum(conc)
			d = x[:]
		case "md5":
			x := md5.Sum(conc)
			d = x[:]
		case "sha512":
			x := sha512.Sum512(conc)
			d = x[:]
		}
		for _, b := range d {
			out = append(out, in.B.Const(8, uint64(b)))
		}
	} else {
		// structurally the same input as an earlier call: the same digest
		for _, r := range in.digests {
			if r.algo == algo && len(r.in) == len(input) {
				same := true
				for i := range input {
					if r.in[i] != input[i] {
						same = false
						break
					}
				}
				if same {
					return r.out
				}
			}
		}
		k := len(in.digests)
		for w := 0; w < size/8; w++ {
			v := in.B.Var(fmt.Sprintf("digest.%s#%d.%d", algo, k, w), sym.BVSort(64))
			for i := 0; i < 8; i++ {
				out = append(out, in.B.Extract(8*i+7, 8*i, v))
			}
		}
		in.Stubs["assumption: cryptographic digests ("+algo+") are collision-free on the inputs of one path"]++
	}
	eqBytes := func(a, b []*sym.Term) *sym.Term {
		if len(a) != len(b) {
			return in.B.False()
		}
		cs := make([]*sym.Term, len(a))
		for i := range a {
			cs[i] = in.B.Eq(a[i], b[i])
		}
		return in.B.And(cs...)
	}
	for _, r := range in.digests {
		if r.algo != algo {
			continue
		}
		ax := in.B.Eq(eqBytes(r.in, input), eqBytes(r.out, out))
		if !ax.IsTrue() {
			in.addPC(ax)
		}
	}
	in.digests = append(in.digests, digestRec{algo: algo, in: input, out: out})
	return out
}

func registerHashLib(in *Interp) {
	H := in.Host
	H["encoding/binary.Write"] = func(in *Interp, a []Value, site ssa.CallInstruction) Value {
		w, order, data := a[0].(Iface), a[1].(Iface), a[2].(Iface)
		if order.T == nil || data.T == nil || w.T == nil {
			in.unmodelled("binary.Write with a nil argument")
		}
		little := strings.Contains(order.T.String(), "ittle")
		var bs []*sym.Term
		if !in.flattenBinary(data.V, little, &bs) {
			in.unmodelled("binary.Write of data that is not fixed-size integers")
		}
		wt := w.T.String()
		if wt != "*bytes.Buffer" {
			in.unmodelled("binary.Write into a " + wt)
		}
		in.Host["(*bytes.Buffer).Write"](in, []Value{w.V, in.byteSlice(bs)}, site)
		return Iface{}
	}
	sum := func(algo string, size int) HostFn {
		return func(in *Interp, a []Value, _ ssa.CallInstruction) Value {
			var input []*sym.Term
			sl := a[0].(Slice)
			if sl.Len < 0 {
				in.unmodelled("digest of an opaque buffer")
			}
			for i := 0; i < sl.Len; i++ {
				input = append(input, in.load(sl.Arr.Kids[sl.Off+i]).(*sym.Term))
			}
			out := in.digest(algo, size, input)
			arr := &Array{}
			for _, b := range out {
				arr.E = append(arr.E, b)
			}
			return arr
		}
	}
	H["crypto/sha256.Sum256"] = sum("sha256", 32)
	H["crypto/sha256.Sum224"] = sum("sha224", 28)
	H["crypto/sha1.Sum"] = sum("sha1", 20)
	H["crypto/md5.Sum"] = sum("md5", 16)
	H["crypto/sha512.Sum512"] = sum("sha512", 64)
}
