package gosym

// Goroutines, channels and the library objects that come with them - under ONE
// schedule: a goroutine runs to completion at its go statement, a channel is a
// queue, a receive that finds the queue empty (and the channel open) would
// need another schedule and ends the path as unmodelled. sync.WaitGroup is a
// no-op under that schedule, sync.Pool hands back the object put last
// (else New()), sync.Map is a map with the engine's iteration order,
// strings.Builder / bytes.Buffer accumulate a string value. What this does NOT
// decide: anything that depends on another interleaving. (Race freedom in C13
// is decided by the write monitor, not by exploring schedules.)

import (
	"fmt"
	"go/token"
	"go/types"

	"golang.org/x/tools/go/ssa"

	"verif/engine/sym"
)

var anyMapType = types.NewMap(types.NewInterfaceType(nil, nil), types.NewInterfaceType(nil, nil))

type ChanObj struct {
	Q      []Value
	Cap    int
	Closed bool
	Elem   types.Type
}

func (in *Interp) chanOf(v Value) *ChanObj {
	c, ok := v.(*ChanObj)
	if !ok || c == nil {
		in.unmodelled("operation on a nil or unmodelled channel")
	}
	return c
}

func (in *Interp) chanSend(ch, v Value) {
	c := in.chanOf(ch)
	if c.Closed {
		in.goPanic("send on closed channel")
	}
	c.Q = append(c.Q, v)
}

func (in *Interp) chanRecv(ch Value) (Value, bool) {
	c := in.chanOf(ch)
	if len(c.Q) > 0 {
		v := c.Q[0]
		c.Q = c.Q[1:]
		return v, true
	}
	if c.Closed {
		return in.zero(c.Elem), false
	}
	in.unmodelled("receive on an empty channel (needs a schedule other than run-to-completion)")
	return nil, false
}

// selectOp: among the cases that are ready under the one schedule, any may be
// taken (fork); none ready: the default case, else unmodelled.
func (in *Interp) selectOp(fr *frame, x *ssa.Select) Value {
	var ready []int
	for i, st := range x.States {
		c, ok := in.get(fr, st.Chan).(*ChanObj)
		if !ok || c == nil {
			continue // nil channel: never ready
		}
		if st.Dir == types.SendOnly {
			if !c.Closed {
				ready = append(ready, i)
			}
		} else if len(c.Q) > 0 || c.Closed {
			ready = append(ready, i)
		}
	}
	nrecv := 0
	for _, st := range x.States {
		if st.Dir == types.RecvOnly {
			nrecv++
		}
	}
	res := make(Tuple, 2+nrecv)
	res[1] = in.B.False()
	k := 0
	for _, st := range x.States {
		if st.Dir == types.RecvOnly {
			res[2+k] = in.zero(under(st.Chan.Type()).(*types.Chan).Elem())
			k++
		}
	}
	if len(ready) == 0 {
		if !x.Blocking {
			res[0] = in.B.Const(in.WordBits, ^uint64(0))
			return res
		}
		in.unmodelled("select with no ready case (needs a schedule other than run-to-completion)")
	}
	pick := ready[0]
	if len(ready) > 1 {
		pick = ready[in.chooseN(make([]*sym.Term, len(ready)))]
	}
	st := x.States[pick]
	res[0] = in.B.Const(in.WordBits, uint64(pick))
	if st.Dir == types.SendOnly {
		in.chanSend(in.get(fr, st.Chan), in.get(fr, st.Send))
		return res
	}
	v, ok := in.chanRecv(in.get(fr, st.Chan))
	res[1] = in.B.Bool(ok)
	k = 0
	for i, s2 := range x.States {
		if s2.Dir == types.RecvOnly {
			if i == pick {
				res[2+k] = v
			}
			k++
		}
	}
	return res
}

func (in *Interp) lib(c *Cell) interface{} {
	if in.libState == nil {
		return nil
	}
	return in.libState[c]
}

func (in *Interp) setLib(c *Cell, v interface{}) {
	if in.libState == nil {
		in.libState = map[*Cell]interface{}{}
	}
	in.libState[c] = v
}

func recvCell(in *Interp, v Value) *Cell {
	p, ok := v.(Ptr)
	if !ok || p.C == nil {
		in.goPanic("nil pointer dereference")
	}
	return p.C
}

func registerConc(in *Interp) {
	H := in.Host
	nop := func(in *Interp, a []Value, _ ssa.CallInstruction) Value { return nil }
	H["(*sync.WaitGroup).Add"] = nop
	H["(*sync.WaitGroup).Done"] = nop
	H["(*sync.WaitGroup).Wait"] = nop
	H["(*sync.Mutex).TryLock"] = func(in *Interp, a []Value, _ ssa.CallInstruction) Value { return in.B.True() }
	H["runtime.Gosched"] = nop

	// sync.Pool: last in, first out; empty: New()
	H["(*sync.Pool).Put"] = func(in *Interp, a []Value, _ ssa.CallInstruction) Value {
		c := recvCell(in, a[0])
		items, _ := in.lib(c).([]Value)
		if ifc, ok := a[1].(Iface); ok && ifc.T == nil {
			return nil // Put(nil) is ignored
		}
		in.setLib(c, append(append([]Value{}, items...), a[1]))
		in.poolRelease(a[1])
		return nil
	}
	H["(*sync.Pool).Get"] = func(in *Interp, a []Value, site ssa.CallInstruction) Value {
		c := recvCell(in, a[0])
		items, _ := in.lib(c).([]Value)
		if n := len(items); n > 0 {
			in.setLib(c, items[:n-1])
			in.poolAcquire(items[n-1])
			return items[n-1]
		}
		st := under(c.T).(*types.Struct)
		for i := 0; i < st.NumFields(); i++ {
			if st.Field(i).Name() == "New" {
				f, ok := in.load(c.Kids[i]).(*Func)
				if !ok || f == nil {
					return Iface{}
				}
				return in.doCall(f, nil, site)
			}
		}
		return Iface{}
	}

	// sync.Map over an engine map (concrete or symbolic keys as any other map)
	smap := func(in *Interp, recv Value) *MapObj {
		c := recvCell(in, recv)
		m, _ := in.lib(c).(*MapObj)
		if m == nil {
			anyT := types.NewInterfaceType(nil, nil)
			m = &MapObj{Ent: map[string]*MapEntry{}, KT: anyT, VT: anyT}
			in.setLib(c, m)
		}
		return m
	}
	H["(*sync.Map).Store"] = func(in *Interp, a []Value, _ ssa.CallInstruction) Value {
		in.mapSet(smap(in, a[0]), a[1], a[2])
		return nil
	}
	H["(*sync.Map).Load"] = func(in *Interp, a []Value, _ ssa.CallInstruction) Value {
		v, ok := in.mapLookup(Map{smap(in, a[0])}, a[1], anyMapType)
		return Tuple{v, ok}
	}
	H["(*sync.Map).LoadOrStore"] = func(in *Interp, a []Value, _ ssa.CallInstruction) Value {
		m := smap(in, a[0])
		v, ok := in.mapLookup(Map{m}, a[1], anyMapType)
		if in.branch(ok) {
			return Tuple{v, in.B.True()}
		}
		in.mapSet(m, a[1], a[2])
		return Tuple{a[2], in.B.False()}
	}
	H["(*sync.Map).Delete"] = func(in *Interp, a []Value, _ ssa.CallInstruction) Value {
		in.mapDelete(smap(in, a[0]), a[1])
		return nil
	}
	H["(*sync.Map).Range"] = func(in *Interp, a []Value, site ssa.CallInstruction) Value {
		m := smap(in, a[0])
		it := in.newMapIter(Map{m})
		for _, k := range it.Keys {
			e, ok := m.Ent[k]
			if !ok {
				continue
			}
			if !in.branch(in.doCall(a[1], []Value{e.K, e.V}, site).(*sym.Term)) {
				break
			}
		}
		return nil
	}

	// strings.Builder / bytes.Buffer: an accumulated string value
	acc := func(in *Interp, recv Value) Value {
		if v, ok := in.lib(recvCell(in, recv)).(Value); ok && v != nil {
			return v
		}
		return ""
	}
	appendStr := func(in *Interp, recv Value, s Value) {
		cur := acc(in, recv)
		if cs, ok := cur.(string); ok {
			if ss, ok2 := s.(string); ok2 {
				in.setLib(recvCell(in, recv), Value(cs+ss))
				return
			}
			if cs == "" {
				in.setLib(recvCell(in, recv), s)
				return
			}
		}
		in.setLib(recvCell(in, recv), in.symStrBinop(token.ADD, cur, s))
	}
	strLen := func(in *Interp, s Value) Value {
		switch x := s.(type) {
		case string:
			return in.B.Const(in.WordBits, uint64(len(x)))
		case *SymStr:
			return in.symStrLen(x)
		}
		in.unmodelled("length of an unmodelled string")
		return nil
	}
	bytesToStr := func(in *Interp, b Value) Value {
		sl := b.(Slice)
		if ss := in.taggedString(sl); ss != nil {
			return ss
		}
		bs := make([]*sym.Term, 0, sl.Len)
		if sl.Len < 0 {
			in.unmodelled("write of an opaque buffer")
		}
		for i := 0; i < sl.Len; i++ {
			bs = append(bs, in.load(sl.Arr.Kids[sl.Off+i]).(*sym.Term))
		}
		return in.mkByteStr(bs)
	}
	for _, ty := range []string{"(*strings.Builder)", "(*bytes.Buffer)"} {
		H[ty+".WriteString"] = func(in *Interp, a []Value, _ ssa.CallInstruction) Value {
			appendStr(in, a[0], a[1])
			return Tuple{strLen(in, a[1]), Iface{}}
		}
		H[ty+".WriteByte"] = func(in *Interp, a []Value, _ ssa.CallInstruction) Value {
			appendStr(in, a[0], in.mkByteStr([]*sym.Term{a[1].(*sym.Term)}))
			return Iface{}
		}
		H[ty+".WriteRune"] = func(in *Interp, a []Value, _ ssa.CallInstruction) Value {
			r := a[1].(*sym.Term)
			if !r.IsConst() {
				in.unmodelled("WriteRune of a symbolic rune")
			}
			s := string(rune(r.C))
			appendStr(in, a[0], s)
			return Tuple{in.B.Const(in.WordBits, uint64(len(s))), Iface{}}
		}
		H[ty+".Write"] = func(in *Interp, a []Value, _ ssa.CallInstruction) Value {
			s := bytesToStr(in, a[1])
			appendStr(in, a[0], s)
			return Tuple{strLen(in, s), Iface{}}
		}
		H[ty+".String"] = func(in *Interp, a []Value, _ ssa.CallInstruction) Value {
			if p, ok := a[0].(Ptr); ok && p.C == nil {
				return "<nil>"
			}
			return acc(in, a[0])
		}
		H[ty+".Len"] = func(in *Interp, a []Value, _ ssa.CallInstruction) Value { return strLen(in, acc(in, a[0])) }
		H[ty+".Reset"] = func(in *Interp, a []Value, _ ssa.CallInstruction) Value {
			in.setLib(recvCell(in, a[0]), Value(""))
			return nil
		}
		H[ty+".Grow"] = nop
	}
	H["(*bytes.Buffer).Bytes"] = func(in *Interp, a []Value, _ ssa.CallInstruction) Value {
		switch x := acc(in, a[0]).(type) {
		case string:
			return in.bytesOf(x)
		case *SymStr:
			return in.bytesOfSym(x)
		}
		return Slice{}
	}
	_ = fmt.Sprint
}
