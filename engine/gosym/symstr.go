package gosym

import (
	"fmt"
	"go/token"
	"go/types"
	"strings"

	"golang.org/x/tools/go/ssa"

	"verif/engine/sym"
)

// Equality-only strings are interned as 32-bit atoms: every concrete string
// met gets its own code, a symbolic string is a free BV32. strings.ToLower is
// the uninterpreted function lower() with host-supplied facts.

func (in *Interp) atomCode(s string) uint64 {
	if c, ok := in.atomCodes[s]; ok {
		return c
	}
	c := uint64(len(in.atomNames))
	if len(in.atomNames) == 0 && s != "" {
		// code 0 is reserved for the empty string
		in.atomCodes[""] = 0
		in.atomNames = append(in.atomNames, "")
		c = 1
		if in.lowerUsed {
			in.addLowerFact("")
		}
		if in.rankUsed {
			in.addRankFact("")
		}
	}
	in.atomCodes[s] = c
	in.atomNames = append(in.atomNames, s)
	if in.lowerUsed {
		in.addLowerFact(s)
	}
	if in.rankUsed {
		in.addRankFact(s)
	}
	return c
}

// AtomString decodes an atom code of a model.
func (in *Interp) AtomString(code uint64) (string, bool) {
	if code < uint64(len(in.atomNames)) {
		return in.atomNames[code], true
	}
	return fmt.Sprintf("zzverif%d", code), false
}

func (in *Interp) atomTerm(v Value) *sym.Term {
	switch x := v.(type) {
	case string:
		return in.B.Const(32, in.atomCode(x))
	case *SymStr:
		if x.Atom != nil {
			return x.Atom
		}
	}
	in.unmodelled(fmt.Sprintf("string value %T used as an equality atom", v))
	return nil
}

func hasLetter(s string) bool {
	for i := 0; i < len(s); i++ {
		c := s[i]
		if (c >= 'a' && c <= 'z') || (c >= 'A' && c <= 'Z') || c >= 0x80 {
			return true
		}
	}
	return false
}

func (in *Interp) addLowerFact(s string) {
	if in.lowerFacts[s] {
		return
	}
	in.lowerFacts[s] = true
	ls := strings.ToLower(s)
	c := in.B.Const(32, in.atomCode(s))
	lc := in.B.Const(32, in.atomCode(ls))
	in.lowerAxioms = append(in.lowerAxioms, in.B.Eq(in.B.UF("lower", sym.BVSort(32), c), lc))
	if !hasLetter(s) {
		// a string without letters is its own only case variant
		for _, app := range in.lowerApps {
			in.lowerAxioms = append(in.lowerAxioms, in.B.Implies(in.B.Eq(app, c), in.B.Eq(app.Args[0], c)))
		}
	}
}

// lowerOf models strings.ToLower.
func (in *Interp) lowerOf(v Value) Value {
	switch x := v.(type) {
	case string:
		return strings.ToLower(x)
	case *SymStr:
		if x.Bytes != nil {
			return in.asciiCase(x, true)
		}
		if x.Atom == nil {
			in.unmodelled("strings.ToLower on a non-atom symbolic string")
		}
		if !in.lowerUsed {
			in.lowerUsed = true
			for _, s := range append([]string(nil), in.atomNames...) {
				in.addLowerFact(s)
			}
		}
		app := in.B.UF("lower", sym.BVSort(32), x.Atom)
		if x.Atom.Op == "var" {
			// a named copy of lower(x), so that models can be decoded into case variants
			lv := in.B.Var("|lower:"+strings.Trim(x.Atom.Str, "|")+"|", sym.BVSort(32))
			in.lowerAxioms = append(in.lowerAxioms, in.B.Eq(lv, app))
		}
		seen := false
		for _, a := range in.lowerApps {
			if a == app {
				seen = true
			}
		}
		if !seen {
			in.lowerApps = append(in.lowerApps, app)
			// idempotence, and caseless strings have no other variant
			in.lowerAxioms = append(in.lowerAxioms, in.B.Eq(in.B.UF("lower", sym.BVSort(32), app), app))
			for s := range in.lowerFacts {
				if !hasLetter(s) {
					c := in.B.Const(32, in.atomCode(s))
					in.lowerAxioms = append(in.lowerAxioms, in.B.Implies(in.B.Eq(app, c), in.B.Eq(x.Atom, c)))
				}
			}
		}
		return &SymStr{Atom: app}
	}
	in.unmodelled("strings.ToLower on unsupported value")
	return nil
}

// byteTerms returns the bytes of a concrete string or of a byte-vector string.
func (in *Interp) byteTerms(v Value) ([]*sym.Term, bool) {
	switch x := v.(type) {
	case string:
		out := make([]*sym.Term, len(x))
		for i := 0; i < len(x); i++ {
			out[i] = in.B.Const(8, uint64(x[i]))
		}
		return out, true
	case *SymStr:
		if x.Bytes != nil {
			return x.Bytes, true
		}
	}
	return nil, false
}

func isByteStr(v Value) bool {
	x, ok := v.(*SymStr)
	return ok && x.Bytes != nil
}

// mkByteStr: a string value from byte terms (a concrete string if all are constants).
func (in *Interp) mkByteStr(bs []*sym.Term) Value {
	conc := make([]byte, 0, len(bs))
	for _, b := range bs {
		if !b.IsConst() {
			return &SymStr{Bytes: append([]*sym.Term{}, bs...)}
		}
		conc = append(conc, byte(b.C))
	}
	return string(conc)
}

// mapBytes applies f to every byte (ToLower / ToUpper on ASCII).
func (in *Interp) asciiCase(v Value, lower bool) Value {
	bs, _ := in.byteTerms(v)
	out := make([]*sym.Term, len(bs))
	lo, hi := uint64('A'), uint64('Z')
	if !lower {
		lo, hi = 'a', 'z'
	}
	for i, b := range bs {
		isL := in.B.And(in.B.ULe(in.B.Const(8, lo), b), in.B.ULe(b, in.B.Const(8, hi)))
		out[i] = in.B.Ite(isL, in.B.BXor(b, in.B.Const(8, 0x20)), b)
	}
	return in.mkByteStr(out)
}

func (in *Interp) byteStrEq(a, b Value) *sym.Term {
	x, ok1 := in.byteTerms(a)
	y, ok2 := in.byteTerms(b)
	if !ok1 || !ok2 {
		in.unmodelled("comparison of a byte-vector string with another kind of symbolic string")
	}
	if len(x) != len(y) {
		return in.B.False()
	}
	cs := make([]*sym.Term, len(x))
	for i := range x {
		cs[i] = in.B.Eq(x[i], y[i])
	}
	return in.B.And(cs...)
}

func (in *Interp) symStrEq(a, b Value) *sym.Term {
	if isByteStr(a) || isByteStr(b) {
		return in.byteStrEq(a, b)
	}
	sa, oka := a.(*SymStr)
	sb, okb := b.(*SymStr)
	if oka && sa.Line {
		if c, ok := b.(string); ok {
			return in.lineEqConst(sa, c)
		}
		if okb && sb.Line && sa.Str == sb.Str && sa.From == sb.From {
			return in.B.True()
		}
		if okb && sb.Line && sa.From == 0 && sb.From == 0 {
			return in.B.Eq(sa.Str, sb.Str)
		}
		in.unmodelled("comparison of two derived symbolic lines")
	}
	if okb && sb.Line {
		return in.symStrEq(b, a)
	}
	if (oka && sa.Str != nil) || (okb && sb.Str != nil) {
		return in.B.Eq(in.strTerm(a), in.strTerm(b))
	}
	if (oka && sa.Atom == nil && sa.Str == nil) || (okb && sb.Atom == nil && sb.Str == nil) {
		in.unmodelled("comparison of an opaque string")
	}
	return in.B.Eq(in.atomTerm(a), in.atomTerm(b))
}

func (in *Interp) symStrBinop(op token.Token, a, b Value) Value {
	switch op {
	case token.EQL:
		return in.symStrEq(a, b)
	case token.NEQ:
		return in.B.Not(in.symStrEq(a, b))
	case token.ADD:
		if isByteStr(a) || isByteStr(b) {
			x, ok1 := in.byteTerms(a)
			y, ok2 := in.byteTerms(b)
			if !ok1 || !ok2 {
				return &SymStr{Tag: "concat"}
			}
			return in.mkByteStr(append(append([]*sym.Term{}, x...), y...))
		}
		sa, oka := a.(*SymStr)
		sb, okb := b.(*SymStr)
		if (oka && sa.Str != nil) || (okb && sb.Str != nil) {
			return &SymStr{Str: in.B.StrConcat(in.strTerm(a), in.strTerm(b))}
		}
		return &SymStr{Tag: "concat"}
	}
	if op == token.LSS || op == token.LEQ || op == token.GTR || op == token.GEQ {
		// lexicographic order of byte-vector strings (lengths are concrete)
		x, ok1 := in.byteTerms(a)
		y, ok2 := in.byteTerms(b)
		if ok1 && ok2 && (isByteStr(a) || isByteStr(b)) {
			if op == token.GTR || op == token.GEQ {
				x, y = y, x
			}
			// now decide x < y (LSS, GTR) or x <= y (LEQ, GEQ)
			n := len(x)
			if len(y) < n {
				n = len(y)
			}
			var alts []*sym.Term
			prefix := in.B.True()
			for i := 0; i < n; i++ {
				alts = append(alts, in.B.And(prefix, in.B.ULt(x[i], y[i])))
				prefix = in.B.And(prefix, in.B.Eq(x[i], y[i]))
			}
			if op == token.LSS || op == token.GTR {
				alts = append(alts, in.B.And(prefix, in.B.Bool(len(x) < len(y))))
			} else {
				alts = append(alts, in.B.And(prefix, in.B.Bool(len(x) <= len(y))))
			}
			return in.B.Or(alts...)
		}
	}
	if op == token.LSS || op == token.LEQ || op == token.GTR || op == token.GEQ {
		isAtom := func(v Value) bool {
			switch x := v.(type) {
			case string:
				return true
			case *SymStr:
				return x.Atom != nil
			}
			return false
		}
		if isAtom(a) && isAtom(b) {
			return in.atomOrder(op, a, b)
		}
	}
	in.unmodelled("string operator " + op.String() + " on a symbolic string")
	return nil
}

// strTerm returns the SMT String term of a string value.
func (in *Interp) strTerm(v Value) *sym.Term {
	switch x := v.(type) {
	case string:
		return in.B.StrConst(x)
	case *SymStr:
		if x.Str != nil {
			if x.From == 0 {
				return x.Str
			}
			in.unmodelled("sliced symbolic string used as a term")
		}
	}
	in.unmodelled(fmt.Sprintf("%T used as an SMT string", v))
	return nil
}

func (in *Interp) symStrLen(x *SymStr) Value {
	if x.Bytes != nil {
		return in.B.Const(in.WordBits, uint64(len(x.Bytes)))
	}
	in.unmodelled("len of a symbolic string")
	return nil
}

func (in *Interp) symStrSlice(b *SymStr, x *ssa.Slice, fr *frame) Value {
	if b.Bytes != nil {
		lo, hi := 0, len(b.Bytes)
		if x.Low != nil {
			n, ok := concreteInt(in.get(fr, x.Low))
			if !ok {
				in.unmodelled("symbolic slice bound on a byte-vector string")
			}
			lo = int(n)
		}
		if x.High != nil {
			n, ok := concreteInt(in.get(fr, x.High))
			if !ok {
				in.unmodelled("symbolic slice bound on a byte-vector string")
			}
			hi = int(n)
		}
		if lo < 0 || hi > len(b.Bytes) || lo > hi {
			in.goPanic(fmt.Sprintf("slice bounds out of range [%d:%d] with length %d", lo, hi, len(b.Bytes)))
		}
		return in.mkByteStr(b.Bytes[lo:hi])
	}
	if b.Line {
		lo, hi := 0, -1
		if x.Low != nil {
			n, ok := concreteInt(in.get(fr, x.Low))
			if !ok {
				in.unmodelled("symbolic slice bound on a symbolic line")
			}
			lo = int(n)
		}
		if x.High != nil {
			n, ok := concreteInt(in.get(fr, x.High))
			if !ok {
				in.unmodelled("symbolic slice bound on a symbolic line")
			}
			hi = int(n)
		}
		return in.lineSlice(b, lo, hi)
	}
	if h := in.SymStrSliceHook; h != nil {
		lo, hi := -1, -1
		if x.Low != nil {
			n, ok := concreteInt(in.get(fr, x.Low))
			if !ok {
				in.unmodelled("symbolic slice bound on a symbolic string")
			}
			lo = int(n)
		}
		if x.High != nil {
			n, ok := concreteInt(in.get(fr, x.High))
			if !ok {
				in.unmodelled("symbolic slice bound on a symbolic string")
			}
			hi = int(n)
		}
		return h(in, b, lo, hi)
	}
	in.unmodelled("slice of a symbolic string")
	return nil
}

// taggedString returns the symbolic string attached to a byte buffer, if any.
func (in *Interp) taggedString(s Slice) Value {
	if s.Arr != nil && in.bufTags != nil {
		if v, ok := in.bufTags[s.Arr]; ok && s.Off == 0 {
			return v
		}
	}
	if s.Arr != nil {
		if ss, ok := s.Arr.V.(*SymStr); ok && s.Len < 0 {
			return ss
		}
	}
	if in.BufString != nil {
		return in.BufString(in, s)
	}
	return nil
}

// bytesOfSym: the bytes of a symbolic string are an opaque buffer that can
// only be converted back to the string (length and elements are unmodelled).
func (in *Interp) bytesOfSym(x *SymStr) Value {
	if x.Bytes != nil {
		arr := in.newArrayCell(types.Typ[types.Uint8], len(x.Bytes))
		for i, b := range x.Bytes {
			arr.Kids[i].V = b
		}
		return Slice{Arr: arr, Len: len(x.Bytes), Cap: len(x.Bytes)}
	}
	return Slice{Arr: &Cell{T: types.NewArray(types.Typ[types.Uint8], 0), V: x, Name: "symbytes"}, Len: -1, Cap: -1}
}
