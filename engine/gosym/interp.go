package gosym

import (
	"time"
	"fmt"
	"os"
	"strconv"
	"go/constant"
	"go/token"
	"go/types"
	"sort"
	"strings"

	"golang.org/x/tools/go/ssa"

	"verif/engine/sym"
)

// Debug prints fork sites.
var Debug = os.Getenv("VERIF_DEBUG") != ""

type undo struct {
	c *Cell
	v Value
}
type mapUndo struct {
	m     *MapObj
	saved *MapObj
}

type pathEnd struct {
	kind string // "assume", "panic", "exit", "unwind", "unmodelled", "crash", "infeasible", "budget"
	msg  string
	val  Value // panic: the value handed to panic (nil for run-time errors)
}

type frame struct {
	fn     *ssa.Function
	locals map[ssa.Value]Value
	defers []func()
	panicking *pathEnd // a Go panic is unwinding through this frame (its deferred calls are running)
	recovered bool
	merge  *phiMerge
	pos    token.Pos
}

type sortedRec struct {
	s    Slice
	vals []Value
}

type trailEntry struct {
	cond  *sym.Term
	taken bool
}

type phiMerge struct {
	cond         *sym.Term
	predT, predF *ssa.BasicBlock
}

type IntrinsicFn func(in *Interp, args []Value, site ssa.CallInstruction) Value
type HostFn func(in *Interp, args []Value, site ssa.CallInstruction) Value

// Violation is a satisfiable negated assertion.
type Violation struct {
	Tag       string
	Model     *sym.Model
	Decisions []int
	Known     string // id of the known-finding predicate it falls in ("" = none)
	Where     string
	Obs       map[string]string
	Notes     []string
}

type TraceEntry struct {
	Callee string
	Args   []Value
	Res    []Value
}

type Interp struct {
	Prog     *ssa.Program
	B        *sym.Bank
	Pool     *sym.Pool
	WordBits int
	GOARCH   string
	GOOS     string

	Globals    map[*ssa.Global]*Cell
	InterpPkgs map[string]bool
	Intrinsics map[string]IntrinsicFn
	Host       map[string]HostFn
	Redirect   map[string]string // callee full name -> harness function name (same package as harness)
	HarnessPkg *ssa.Package
	SkipInit   map[string]bool // function full names not to run during init
	TraceFns   map[string]bool

	Params     map[string]interface{}
	Concrete   map[string]uint64 // nondet names fixed to concrete values (selftest)
	OpenKnown  map[string]bool // known-finding ids that are listed as open
	MapOrder   string          // "asc", "desc", "all"
	MaxPaths   int
	Deadline   time.Time // wall-clock budget of the instance (zero = none)
	MaxSteps   int
	MaxDecide  int
	atomCodes  map[string]uint64
	atomNames  []string
	lowerFacts map[string]bool

	// per-run state
	pc           []*sym.Term
	pcSet        map[int]bool
	model        *sym.Model
	decisions    []int
	decPos       int
	work         [][]int
	journal      []undo
	mapJournal   []mapUndo
	stack        []*frame
	steps        int
	monitorOn    bool
	sharedWrites []string
	shareTag     int
	trace        []TraceEntry
	known        map[string]*sym.Term // active known-finding predicates (id -> term), per path
	nondetSeq    map[string]int
	errSeq       int
	poolUses     map[*Cell]*poolUse
	inPoolModel  bool
	sortSeq      int
	digests      []digestRec
	procCodes    map[*Cell]Value
	curG, goSeq  int // current goroutine (0 = the harness goroutine)
	libState     map[*Cell]interface{} // engine-side state of modelled library objects (sync.Pool, sync.Map, strings.Builder, ...)
	locked       int
	pathNotes    []string
	lastPanic    string
	recordExtern bool
	summarizing  bool
	sumTrail     []trailEntry
	lastSorted   *sortedRec
	bufTags      map[*Cell]Value
	lenSeq       int
	feasCache    map[string]bool
	FeasCacheHits int
	runBudget    int
	RunSteps     int // step budget of the code run under vRun (exceeding it = "does not terminate")
	externCalls  []string
	obs          []Obs
	onceDone     map[*Cell]bool
	lowerUsed    bool
	lowerApps    []*sym.Term
	lowerAxioms  []*sym.Term
	rankUsed     bool
	rankTie      bool
	rankFacts    map[string]bool
	rankApps     []*sym.Term
	atomVars     map[string]bool
	lineVars     []*sym.Term
	Summarize    map[string]bool // pure callees whose paths are merged into one value

	// hooks for the string layers
	SymStrSliceHook func(in *Interp, s *SymStr, lo, hi int) Value
	BufString       func(in *Interp, s Slice) Value
	StrPred         func(in *Interp, args []Value) Value

	// per-instance results
	Paths        int
	PathKinds    map[string]int
	Covers       map[string]int
	CoverModel   map[string]*sym.Model
	Asserts      map[string]int // tag -> obligations checked
	Trivial      map[string]int // tag -> obligations that were concretely true
	Violations   []Violation
	Inconclusive []string
	FuncInstrs   map[string]int
	FuncSym      map[string]bool
	FuncHarness  map[string]bool
	Stubs        map[string]int
	Notes        []string
	PathObs      []map[string]string
	WantCoverModels bool
}

func NewInterp(prog *ssa.Program, bank *sym.Bank, pool *sym.Pool) *Interp {
	in := &Interp{Prog: prog, B: bank, Pool: pool, WordBits: 64, GOARCH: "amd64", GOOS: "linux",
		Globals: map[*ssa.Global]*Cell{}, InterpPkgs: map[string]bool{}, Intrinsics: map[string]IntrinsicFn{},
		Host: map[string]HostFn{}, Redirect: map[string]string{}, SkipInit: map[string]bool{}, TraceFns: map[string]bool{},
		Params: map[string]interface{}{}, OpenKnown: map[string]bool{}, Summarize: map[string]bool{}, MapOrder: "asc", MaxPaths: 4096, MaxSteps: 400_000_000, RunSteps: 40_000_000, MaxDecide: 400,
		atomCodes: map[string]uint64{}, lowerFacts: map[string]bool{}}
	in.resetInstance()
	registerIntrinsics(in)
	registerHost(in)
	return in
}

// ResetInstance clears per-instance results and string-layer state.
func (in *Interp) ResetInstance() {
	in.resetInstance()
	in.feasCache = nil
	in.SetBank(in.B)
	in.atomVars = map[string]bool{}
}

// ModelValues renders a model as name -> value ("0x.." or string).
func (in *Interp) ModelValues(m *sym.Model) map[string]string {
	out := map[string]string{}
	if m == nil {
		return out
	}
	for k, v := range m.Vals {
		name := strings.Trim(k, "|")
		if strings.HasPrefix(name, "lower:") || (strings.HasPrefix(name, "rank") && len(name) > 5 && name[5] == ':') {
			continue
		}
		if in.atomVars[name] {
			out[name] = in.decodeAtom(name, v, m)
			continue
		}
		out[name] = fmt.Sprintf("0x%x", v)
	}
	for k, v := range m.Strs {
		out[strings.Trim(k, "|")] = v
	}
	return out
}

// decodeAtom turns the code of an equality-atom variable into a string: an
// interned code is its string; any other code is a fresh string, chosen as a
// case variant of the decoded value of lower(v) when the model fixes that.
func (in *Interp) decodeAtom(name string, code uint64, m *sym.Model) string {
	if s, ok := in.AtomString(code); ok {
		return s
	}
	if w0, ok := m.Vals["|rank0:"+name+"|"]; ok {
		w := [4]uint64{w0, m.Vals["|rank1:"+name+"|"], m.Vals["|rank2:"+name+"|"], m.Vals["|rank3:"+name+"|"]}
		if s := decodeRank(w); s != "" {
			if _, taken := in.atomCodes[s]; !taken {
				return s
			}
		}
	}
	lk, has := m.Vals["|lower:"+name+"|"]
	if !has || lk == code {
		return fmt.Sprintf("zzverif%d", code)
	}
	base, interned := in.AtomString(lk)
	if !interned {
		base = fmt.Sprintf("zzverif%d", lk)
	}
	// toggle the case of letters according to the bits of the code until the spelling is new
	for salt := code; salt < code+4096; salt++ {
		b := []byte(base)
		bit := uint(0)
		changed := false
		for i := range b {
			if b[i] >= 'a' && b[i] <= 'z' {
				if (salt>>bit)&1 == 1 || bit == 0 && salt == code {
					b[i] -= 32
					changed = true
				}
				bit++
			}
		}
		v := string(b)
		if !changed {
			continue
		}
		if _, taken := in.atomCodes[v]; !taken {
			return v
		}
	}
	return fmt.Sprintf("ZZVERIF%d", code)
}

func (in *Interp) resetInstance() {
	in.Paths = 0
	in.PathKinds = map[string]int{}
	in.Covers = map[string]int{}
	in.CoverModel = map[string]*sym.Model{}
	in.Asserts = map[string]int{}
	in.Trivial = map[string]int{}
	in.Violations = nil
	in.Inconclusive = nil
	in.FuncInstrs = map[string]int{}
	in.FuncSym = map[string]bool{}
	in.FuncHarness = map[string]bool{}
	in.Stubs = map[string]int{}
	in.Notes = nil
	in.PathObs = nil
}

// SetBank rebinds the interpreter to a fresh term bank (new instance).
func (in *Interp) SetBank(b *sym.Bank) {
	in.B = b
	in.atomCodes = map[string]uint64{}
	in.atomNames = nil
	in.lowerFacts = map[string]bool{}
	in.lowerUsed = false
	in.lowerApps = nil
	in.lowerAxioms = nil
	in.rankUsed, in.rankTie, in.rankFacts, in.rankApps = false, false, nil, nil
	in.lineVars = nil
}

func (in *Interp) where() string {
	for i := len(in.stack) - 1; i >= 0; i-- {
		fr := in.stack[i]
		if fr.pos.IsValid() {
			p := in.Prog.Fset.Position(fr.pos)
			return fmt.Sprintf("%s:%d", shortFile(p.Filename), p.Line)
		}
	}
	return "?"
}

func shortFile(f string) string {
	if i := strings.LastIndex(f, "/"); i >= 0 {
		return f[i+1:]
	}
	return f
}

func (in *Interp) goPanic(msg string) {
	panic(pathEnd{kind: "panic", msg: msg + " at " + in.where()})
}

func (in *Interp) unmodelled(msg string) {
	panic(pathEnd{kind: "unmodelled", msg: msg + " at " + in.where()})
}

// ---------------------------------------------------------------------------
// Package initialisation

// InitPackages interprets the initialisers of the given packages (in the
// given order) and marks the resulting heap as Old.
func (in *Interp) InitPackages(pkgs []*ssa.Package) error {
	var err error
	func() {
		defer func() {
			if r := recover(); r != nil {
				if pe, ok := r.(pathEnd); ok {
					err = fmt.Errorf("package init: %s: %s", pe.kind, pe.msg)
					return
				}
				panic(r)
			}
		}()
		in.pcSet = map[int]bool{}
		for _, p := range pkgs {
			in.initGlobals(p)
		}
		for _, p := range pkgs {
			init := p.Func("init")
			if init == nil {
				continue
			}
			in.runInit(init)
		}
	}()
	if err != nil {
		return err
	}
	// mark everything reachable from globals as Old
	seen := map[*Cell]bool{}
	seenM := map[*MapObj]bool{}
	for g, c := range in.Globals {
		c.Name = g.Pkg.Pkg.Name() + "." + g.Name()
		in.markOld(c, seen, seenM)
	}
	in.journal = nil
	in.mapJournal = nil
	return nil
}

func (in *Interp) initGlobals(p *ssa.Package) {
	for _, m := range p.Members {
		if g, ok := m.(*ssa.Global); ok {
			if _, have := in.Globals[g]; !have {
				in.Globals[g] = in.newCell(g.Type().(*types.Pointer).Elem())
			}
		}
	}
}

// runInit runs a package's init function but does not recurse into the
// initialisers of packages outside the interpreted set.
func (in *Interp) runInit(init *ssa.Function) {
	in.callFunction(init, nil, nil, nil)
}

func (in *Interp) markOld(c *Cell, seen map[*Cell]bool, seenM map[*MapObj]bool) {
	if c == nil || seen[c] {
		return
	}
	seen[c] = true
	c.Old = true
	for _, k := range c.Kids {
		in.markOld(k, seen, seenM)
	}
	if c.Parent != nil {
		in.markOld(c.Parent, seen, seenM)
	}
	in.markOldValue(c.V, seen, seenM)
}

func (in *Interp) markOldValue(v Value, seen map[*Cell]bool, seenM map[*MapObj]bool) {
	switch x := v.(type) {
	case Ptr:
		in.markOld(x.C, seen, seenM)
	case Slice:
		in.markOld(x.Arr, seen, seenM)
	case Map:
		if x.M != nil && !seenM[x.M] {
			seenM[x.M] = true
			x.M.Old = true
			for _, e := range x.M.Ent {
				in.markOldValue(e.K, seen, seenM)
				in.markOldValue(e.V, seen, seenM)
			}
		}
	case Iface:
		in.markOldValue(x.V, seen, seenM)
	case *Struct:
		for _, f := range x.F {
			in.markOldValue(f, seen, seenM)
		}
	case *Array:
		for _, f := range x.E {
			in.markOldValue(f, seen, seenM)
		}
	case *Func:
		if x != nil {
			for _, f := range x.Env {
				in.markOldValue(f, seen, seenM)
			}
		}
	}
}

// shareValue tags everything reachable from v for the write monitor.
func (in *Interp) shareValue(v Value, tag int, seen map[*Cell]bool, seenM map[*MapObj]bool) {
	var cell func(c *Cell)
	cell = func(c *Cell) {
		if c == nil || seen[c] {
			return
		}
		seen[c] = true
		c.Shared = tag
		for _, k := range c.Kids {
			cell(k)
		}
		if c.Parent != nil {
			cell(c.Parent)
		}
		in.shareValue(c.V, tag, seen, seenM)
	}
	switch x := v.(type) {
	case Ptr:
		cell(x.C)
	case Slice:
		cell(x.Arr)
	case Map:
		if x.M != nil && !seenM[x.M] {
			seenM[x.M] = true
			x.M.Shared = tag
			for _, e := range x.M.Ent {
				in.shareValue(e.K, tag, seen, seenM)
				in.shareValue(e.V, tag, seen, seenM)
			}
		}
	case Iface:
		in.shareValue(x.V, tag, seen, seenM)
	case *Struct:
		for _, f := range x.F {
			in.shareValue(f, tag, seen, seenM)
		}
	case *Array:
		for _, f := range x.E {
			in.shareValue(f, tag, seen, seenM)
		}
	}
}

// ---------------------------------------------------------------------------
// Running a harness over all paths

// RunAll explores every path of harness function fn.
func (in *Interp) RunAll(fn *ssa.Function) {
	in.work = [][]int{nil}
	for len(in.work) > 0 {
		if in.Paths >= in.MaxPaths {
			in.Inconclusive = append(in.Inconclusive, fmt.Sprintf("path budget %d exhausted", in.MaxPaths))
			return
		}
		if !in.Deadline.IsZero() && time.Now().After(in.Deadline) {
			in.Inconclusive = append(in.Inconclusive, fmt.Sprintf("time budget of the instance exhausted after %d paths", in.Paths))
			return
		}
		pre := in.work[len(in.work)-1]
		in.work = in.work[:len(in.work)-1]
		in.runPath(fn, pre)
	}
}

func (in *Interp) runPath(fn *ssa.Function, prefix []int) {
	in.pc = nil
	in.pcSet = map[int]bool{}
	in.model = nil
	in.decisions = append([]int(nil), prefix...)
	in.decPos = 0
	in.stack = nil
	in.steps = 0
	in.monitorOn = false
	in.sharedWrites = nil
	in.trace = nil
	in.known = map[string]*sym.Term{}
	in.nondetSeq = map[string]int{}
	in.errSeq = 0
	in.poolUses = nil
	in.sortSeq = 0
	in.digests = nil
	in.locked = 0
	in.curG, in.goSeq = 0, 0
	in.libState = nil
	in.procCodes = nil
	in.pathNotes = nil
	in.obs = nil
	in.onceDone = nil
	in.lastPanic = ""
	in.recordExtern = false
	in.summarizing = false
	in.lastSorted = nil
	in.bufTags = nil
	in.lenSeq = 0
	in.runBudget = 0
	in.externCalls = nil
	kind := "done"
	func() {
		defer func() {
			if r := recover(); r != nil {
				pe, ok := r.(pathEnd)
				if !ok {
					panic(r)
				}
				kind = pe.kind
				switch pe.kind {
				case "assume", "infeasible", "exit", "crash":
				case "panic":
					in.Inconclusive = append(in.Inconclusive, "uncaught panic in harness path: "+pe.msg)
				default:
					in.Inconclusive = append(in.Inconclusive, pe.kind+": "+pe.msg)
				}
			}
		}()
		in.callFunction(fn, nil, nil, nil)
	}()
	in.Paths++
	in.PathKinds[kind]++
	if kind == "done" && len(in.obs) > 0 && len(in.PathObs) < 64 {
		in.PathObs = append(in.PathObs, in.evalObs(&sym.Model{Vals: map[string]uint64{}}))
	}
	// undo writes to package state
	for i := len(in.journal) - 1; i >= 0; i-- {
		in.journal[i].c.V = in.journal[i].v
	}
	in.journal = in.journal[:0]
	for i := len(in.mapJournal) - 1; i >= 0; i-- {
		u := in.mapJournal[i]
		u.m.Keys = u.saved.Keys
		u.m.Ent = u.saved.Ent
		u.m.saved = false
	}
	in.mapJournal = in.mapJournal[:0]
}

func (in *Interp) addPC(t *sym.Term) {
	if t.IsTrue() || in.pcSet[t.ID] {
		return
	}
	in.pc = append(in.pc, t)
	in.pcSet[t.ID] = true
}

// modelSays evaluates t under the cached model of the current pc.
func (in *Interp) modelSays(t *sym.Term) (val bool, ok bool) {
	if in.model == nil {
		return false, false
	}
	v, ok := sym.Eval(t, in.model.Vals)
	if !ok {
		return false, false
	}
	return v == 1, true
}

func (in *Interp) feasible(extra *sym.Term) bool {
	if extra.IsTrue() {
		return true
	}
	if extra.IsFalse() {
		return false
	}
	if in.pcSet[extra.ID] {
		return true
	}
	if in.pcSet[in.B.Not(extra).ID] {
		return false
	}
	if v, ok := in.modelSays(extra); ok && v {
		return true
	}
	// paths are re-executed from the start, so the same question comes back: remember the answers
	key := in.pcKey() + "|" + strconv.Itoa(extra.ID) + "|" + strconv.Itoa(len(in.sideFacts()))
	if r, ok := in.feasCache[key]; ok {
		in.FeasCacheHits++
		return r
	}
	asserts := append(append([]*sym.Term(nil), in.pc...), extra)
	asserts = append(asserts, in.sideFacts()...)
	v, _ := in.Pool.Feasible(asserts, false)
	if in.feasCache == nil {
		in.feasCache = map[string]bool{}
	}
	in.feasCache[key] = v != sym.Unsat
	return v != sym.Unsat
}

func (in *Interp) pcKey() string {
	var sb strings.Builder
	for _, t := range in.pc {
		sb.WriteString(strconv.Itoa(t.ID))
		sb.WriteByte(',')
	}
	return sb.String()
}

// branch decides a two-way branch on cond, forking if both sides are feasible.
func (in *Interp) branch(cond *sym.Term) bool {
	if cond.IsConst() {
		return cond.C == 1
	}
	if in.pcSet[cond.ID] {
		return true
	}
	ncond := in.B.Not(cond)
	if in.pcSet[ncond.ID] {
		return false
	}
	if in.decPos < len(in.decisions) {
		d := in.decisions[in.decPos]
		in.decPos++
		if d == 1 {
			in.addPC(cond)
		} else {
			in.addPC(ncond)
		}
		if in.summarizing {
			in.sumTrail = append(in.sumTrail, trailEntry{cond, d == 1})
		}
		return d == 1
	}
	if len(in.decisions) >= in.MaxDecide {
		panic(pathEnd{kind: "unwind", msg: fmt.Sprintf("more than %d symbolic decisions on one path", in.MaxDecide)})
	}
	if in.summarizing {
		// inside a summarised callee both sides are explored without asking the solver: an
		// infeasible side only adds a dead branch to the merged ite
		alt := append(append([]int(nil), in.decisions...), 0)
		in.work = append(in.work, alt)
		in.decisions = append(in.decisions, 1)
		in.decPos++
		in.addPC(cond)
		in.sumTrail = append(in.sumTrail, trailEntry{cond, true})
		return true
	}
	var tf, ff bool
	if v, ok := in.modelSays(cond); ok {
		if v {
			tf = true
			ff = in.feasible(ncond)
		} else {
			ff = true
			tf = in.feasible(cond)
		}
	} else {
		tf = in.feasible(cond)
		if !tf {
			ff = true
		} else {
			ff = in.feasible(ncond)
		}
	}
	if Debug && tf && ff {
		fmt.Printf("FORK at %s (decision %d)\n", in.where(), len(in.decisions))
	}
	switch {
	case tf && ff:
		// continue with the side the cached model supports (if any), else true
		take := 1
		if v, ok := in.modelSays(cond); ok && !v {
			take = 0
		} else if !ok {
			in.model = nil
		}
		alt := append(append([]int(nil), in.decisions...), 1-take)
		in.work = append(in.work, alt)
		in.decisions = append(in.decisions, take)
		in.decPos++
		if take == 1 {
			in.addPC(cond)
		} else {
			in.addPC(ncond)
		}
		return take == 1
	case tf:
		in.decisions = append(in.decisions, 1)
		in.decPos++
		in.addPC(cond)
		return true
	case ff:
		in.decisions = append(in.decisions, 0)
		in.decPos++
		in.addPC(ncond)
		return false
	}
	panic(pathEnd{kind: "infeasible"})
}

// chooseN picks one of n alternatives; conds[i] may be nil (unconditional).
func (in *Interp) chooseN(conds []*sym.Term) int {
	if in.decPos < len(in.decisions) {
		d := in.decisions[in.decPos]
		in.decPos++
		if conds[d] != nil {
			in.addPC(conds[d])
		}
		return d
	}
	if len(in.decisions) >= in.MaxDecide {
		panic(pathEnd{kind: "unwind", msg: fmt.Sprintf("more than %d symbolic decisions on one path", in.MaxDecide)})
	}
	var feas []int
	for i, c := range conds {
		if c == nil || in.feasible(c) {
			feas = append(feas, i)
		}
	}
	if len(feas) == 0 {
		panic(pathEnd{kind: "infeasible"})
	}
	if Debug && len(feas) > 1 {
		fmt.Printf("FORK-N %d at %s (decision %d)\n", len(feas), in.where(), len(in.decisions))
	}
	for _, i := range feas[1:] {
		alt := append(append([]int(nil), in.decisions...), i)
		in.work = append(in.work, alt)
	}
	in.decisions = append(in.decisions, feas[0])
	in.decPos++
	if c := conds[feas[0]]; c != nil {
		if v, ok := in.modelSays(c); !ok || !v {
			in.model = nil
		}
		in.addPC(c)
	}
	return feas[0]
}

// sideFacts returns assertions that must accompany every query (axioms about
// uninterpreted string functions).
func (in *Interp) sideFacts() []*sym.Term { return in.lowerAxioms }

// ---------------------------------------------------------------------------
// Function calls

func (in *Interp) callFunction(fn *ssa.Function, args []Value, env []Value, site ssa.CallInstruction) Value {
	name := fn.String()
	if in.SkipInit[name] {
		return nil
	}
	// intrinsics are the functions of zz_verif_rt*.go
	if h, ok := in.Intrinsics[fn.Name()]; ok && in.isRT(fn) {
		return h(in, args, site)
	}
	if target, ok := in.Redirect[name]; ok && !in.callerIsHarness() {
		f := in.findHarnessFunc(fn, target)
		if f == nil {
			in.unmodelled("redirect target " + target + " not found")
		}
		in.Stubs[name+" -> "+target]++
		return in.callFunction(f, args, nil, site)
	}
	if h, ok := in.Host[name]; ok {
		in.Stubs[name]++
		return h(in, args, site)
	}
	if fn.Synthetic != "" && strings.HasPrefix(fn.Synthetic, "package initializer") {
		if fn.Pkg != nil && !in.InterpPkgs[fn.Pkg.Pkg.Path()] {
			return nil
		}
	}
	if fn.Pkg != nil && !in.InterpPkgs[fn.Pkg.Pkg.Path()] {
		// a pure library function on concrete arguments: run the real one
		if v, ok := in.callThrough(name, fn, args); ok {
			return v
		}
	}
	if fn.Blocks == nil || (fn.Pkg != nil && !in.InterpPkgs[fn.Pkg.Pkg.Path()]) {
		if in.recordExtern {
			// harness asked for calls that leave the interpreted packages to be recorded, not refused
			in.externCalls = append(in.externCalls, name)
			res := fn.Signature.Results()
			switch res.Len() {
			case 0:
				return nil
			case 1:
				return in.zero(res.At(0).Type())
			}
			return in.zero(res)
		}
	}
	if fn.Blocks == nil {
		in.unmodelled("call to function without body: " + name)
	}
	if fn.Pkg != nil && !in.InterpPkgs[fn.Pkg.Pkg.Path()] {
		in.unmodelled("call into package outside the interpreted set: " + name)
	}
	if fn.Pkg == nil {
		// synthetic wrappers/bound methods/instantiations: allowed when their origin is interpreted
		if o := fn.Origin(); o != nil && o.Pkg != nil && !in.InterpPkgs[o.Pkg.Pkg.Path()] {
			in.unmodelled("call into package outside the interpreted set: " + name)
		}
	}
	if len(in.stack) > 200 {
		in.unmodelled("call depth > 200")
	}
	if in.Summarize[name] && !in.summarizing {
		return in.summarize(fn, args, env)
	}
	var rec *TraceEntry
	if in.TraceFns[name] {
		in.trace = append(in.trace, TraceEntry{Callee: name, Args: args})
		rec = &in.trace[len(in.trace)-1]
		_ = rec
	}
	idx := len(in.trace) - 1
	res := in.interpret(fn, args, env)
	if in.TraceFns[name] && idx >= 0 && idx < len(in.trace) {
		if t, ok := res.(Tuple); ok {
			in.trace[idx].Res = t
		} else if res != nil {
			in.trace[idx].Res = []Value{res}
		}
	}
	return res
}

// callerIsHarness: redirects stand in for the environment of the code under
// test; a call made by harness code itself always reaches the real function.
func (in *Interp) callerIsHarness() bool {
	if n := len(in.stack); n > 0 {
		fn := in.stack[n-1].fn
		for fn.Parent() != nil {
			fn = fn.Parent()
		}
		if fn.Pos().IsValid() {
			return strings.Contains(in.Prog.Fset.Position(fn.Pos()).Filename, "zz_verif_")
		}
	}
	return false
}

// calledFrom reports whether the innermost frame runs the named function (a
// stub may call the function it stands in for).
func (in *Interp) calledFrom(name string) bool {
	if n := len(in.stack); n > 0 {
		return in.stack[n-1].fn.Name() == name
	}
	return false
}

// summarize explores all paths of a pure callee (configured by name) and
// merges its scalar results into one ite tree over the branch conditions
// instead of forking the caller.
func (in *Interp) summarize(fn *ssa.Function, args []Value, env []Value) Value {
	in.summarizing = true
	savedDec, savedPos, savedWork, savedModel := in.decisions, in.decPos, in.work, in.model
	basePC := len(in.pc)
	depth := len(in.stack)
	type res struct {
		trail []trailEntry
		val   *sym.Term
	}
	var results []res
	var escaped interface{}
	work := [][]int{nil}
	for len(work) > 0 && escaped == nil {
		pre := work[len(work)-1]
		work = work[:len(work)-1]
		in.decisions = append([]int(nil), pre...)
		in.decPos = 0
		in.work = nil
		in.model = nil
		in.sumTrail = nil
		var val Value
		func() {
			defer func() {
				if r := recover(); r != nil {
					escaped = r
					in.stack = in.stack[:depth]
				}
			}()
			val = in.interpret(fn, args, env)
		}()
		if escaped == nil {
			t, ok := val.(*sym.Term)
			if !ok {
				escaped = pathEnd{kind: "unmodelled", msg: "summarised callee " + fn.String() + " returns a non-scalar"}
			}
			results = append(results, res{append([]trailEntry(nil), in.sumTrail...), t})
			work = append(work, in.work...)
		}
		for _, t := range in.pc[basePC:] {
			delete(in.pcSet, t.ID)
		}
		in.pc = in.pc[:basePC]
		if len(results) > 512 {
			escaped = pathEnd{kind: "unwind", msg: "more than 512 paths in summarised callee " + fn.String()}
		}
	}
	in.decisions, in.decPos, in.work, in.model = savedDec, savedPos, savedWork, savedModel
	in.summarizing = false
	in.sumTrail = nil
	if escaped != nil {
		panic(escaped)
	}
	in.FuncSym[fn.String()] = true
	in.Stubs["summary (all paths merged into one term): "+fn.String()]++
	var merge func(rs []res, d int) *sym.Term
	merge = func(rs []res, d int) *sym.Term {
		if len(rs) == 1 {
			return rs[0].val
		}
		c := rs[0].trail[d].cond
		var yes, no []res
		for _, r := range rs {
			if r.trail[d].taken {
				yes = append(yes, r)
			} else {
				no = append(no, r)
			}
		}
		if len(yes) == 0 {
			return merge(no, d+1)
		}
		if len(no) == 0 {
			return merge(yes, d+1)
		}
		return in.B.Ite(c, merge(yes, d+1), merge(no, d+1))
	}
	return merge(results, 0)
}

func (in *Interp) isRT(fn *ssa.Function) bool {
	if fn.Pos().IsValid() {
		f := in.Prog.Fset.Position(fn.Pos()).Filename
		return strings.Contains(f, "zz_verif_rt")
	}
	return false
}

func (in *Interp) findHarnessFunc(near *ssa.Function, name string) *ssa.Function {
	if in.HarnessPkg != nil {
		if f := in.HarnessPkg.Func(name); f != nil {
			return f
		}
	}
	for _, p := range in.Prog.AllPackages() {
		if f := p.Func(name); f != nil && in.InterpPkgs[p.Pkg.Path()] {
			return f
		}
	}
	return nil
}

func (in *Interp) interpret(fn *ssa.Function, args []Value, env []Value) (result Value) {
	fr := &frame{fn: fn, locals: make(map[ssa.Value]Value, 16)}
	for i, p := range fn.Params {
		fr.locals[p] = args[i]
	}
	for i, fv := range fn.FreeVars {
		fr.locals[fv] = env[i]
	}
	in.stack = append(in.stack, fr)
	defer func() { in.stack = in.stack[:len(in.stack)-1] }()
	fname := fn.String()
	if _, seen := in.FuncHarness[fname]; !seen {
		h := false
		root := fn
		for root.Parent() != nil {
			root = root.Parent()
		}
		if root.Pos().IsValid() {
			h = strings.Contains(in.Prog.Fset.Position(root.Pos()).Filename, "zz_verif_")
		}
		in.FuncHarness[fname] = h
	}

	if fn.Recover == nil {
		return in.execFrom(fr, fn, fname, fn.Blocks[0])
	}
	// a function with deferred calls: a Go panic (not any other end of the path) runs them, and a
	// deferred call that recovers makes the function return through its recover block
	func() {
		defer func() {
			r := recover()
			if r == nil {
				return
			}
			pe, ok := r.(pathEnd)
			if !ok || pe.kind != "panic" {
				panic(r)
			}
			// unwind the interpreter stack to this frame (callees were cut off)
			for len(in.stack) > 0 && in.stack[len(in.stack)-1] != fr {
				in.stack = in.stack[:len(in.stack)-1]
			}
			fr.panicking = &pe
			for len(fr.defers) > 0 {
				d := fr.defers[len(fr.defers)-1]
				fr.defers = fr.defers[:len(fr.defers)-1]
				d()
			}
			if !fr.recovered {
				panic(r)
			}
			fr.panicking, fr.recovered = nil, false
			result = in.execFrom(fr, fn, fname, fn.Recover)
		}()
		result = in.execFrom(fr, fn, fname, fn.Blocks[0])
	}()
	return result
}

// execFrom runs the function of frame fr from the given block to its return.
func (in *Interp) execFrom(fr *frame, fn *ssa.Function, fname string, start *ssa.BasicBlock) Value {
	block := start
	var prev *ssa.BasicBlock
	for {
		instrs := block.Instrs
		i := 0
		// phis
		for ; i < len(instrs); i++ {
			phi, ok := instrs[i].(*ssa.Phi)
			if !ok {
				break
			}
			_ = phi
		}
		if i > 0 {
			vals := make([]Value, i)
			if fr.merge != nil {
				m := fr.merge
				it, iF := -1, -1
				for k, p := range block.Preds {
					if p == m.predT && it < 0 {
						it = k
					} else if p == m.predF {
						iF = k
					}
				}
				if m.predT == m.predF {
					// both edges come from the same block (cannot happen for If with distinct succs)
					panic("merge: identical predecessors")
				}
				for k := 0; k < i; k++ {
					phi := instrs[k].(*ssa.Phi)
					a := in.get(fr, phi.Edges[it])
					b := in.get(fr, phi.Edges[iF])
					vals[k] = in.iteValue(m.cond, a, b)
				}
				fr.merge = nil
			} else {
				idx := -1
				for k, p := range block.Preds {
					if p == prev {
						idx = k
						break
					}
				}
				for k := 0; k < i; k++ {
					phi := instrs[k].(*ssa.Phi)
					vals[k] = in.get(fr, phi.Edges[idx])
				}
			}
			for k := 0; k < i; k++ {
				fr.locals[instrs[k].(*ssa.Phi)] = vals[k]
			}
		}
		fr.merge = nil
		var next *ssa.BasicBlock
		for ; i < len(instrs); i++ {
			instr := instrs[i]
			in.steps++
			if in.steps > in.MaxSteps {
				panic(pathEnd{kind: "budget", msg: "step budget exhausted"})
			}
			if in.runBudget > 0 && in.steps > in.runBudget {
				in.runBudget = 0
				panic(pathEnd{kind: "nonterm", msg: fmt.Sprintf("code under vRun executed more than %d SSA instructions", in.RunSteps)})
			}
			in.FuncInstrs[fname]++
			if p := instr.Pos(); p.IsValid() {
				fr.pos = p
			}
			switch x := instr.(type) {
			case *ssa.Return:
				switch len(x.Results) {
				case 0:
					return nil
				case 1:
					return in.get(fr, x.Results[0])
				default:
					t := make(Tuple, len(x.Results))
					for k, r := range x.Results {
						t[k] = in.get(fr, r)
					}
					return t
				}
			case *ssa.Jump:
				next = block.Succs[0]
			case *ssa.If:
				c := in.get(fr, x.Cond).(*sym.Term)
				if !c.IsConst() {
					in.FuncSym[fname] = true
					if j := in.tryMerge(fr, block, c); j != nil {
						next = j
						break
					}
				}
				if in.branch(c) {
					next = block.Succs[0]
				} else {
					next = block.Succs[1]
				}
			case *ssa.Panic:
				v := in.get(fr, x.X)
				panic(pathEnd{kind: "panic", msg: fmt.Sprintf("panic(%v)", describe(v)) + " at " + in.where(), val: v})
			case *ssa.RunDefers:
				for len(fr.defers) > 0 {
					d := fr.defers[len(fr.defers)-1]
					fr.defers = fr.defers[:len(fr.defers)-1]
					d()
				}
			case *ssa.Defer:
				fnv, args := in.prepareCall(fr, &x.Call)
				site := x
				fr.defers = append(fr.defers, func() { in.doCall(fnv, args, site) })
			case *ssa.Go:
				// ONE schedule: the new goroutine runs to completion where it is started (channels are
				// queues; a receive that finds nothing needs a schedule the engine does not explore)
				fnv, args := in.prepareCall(fr, &x.Call)
				in.goSeq++
				saved, savedLock := in.curG, in.locked
				in.curG, in.locked = in.goSeq, 0
				in.Stubs["go statement (run to completion in place)"]++
				in.doCall(fnv, args, x)
				in.curG, in.locked = saved, savedLock
			case *ssa.Send:
				in.chanSend(in.get(fr, x.Chan), in.get(fr, x.X))
			case *ssa.Store:
				p := in.get(fr, x.Addr).(Ptr)
				in.store(p.C, in.get(fr, x.Val))
			case *ssa.MapUpdate:
				m := in.get(fr, x.Map).(Map)
				if m.M == nil {
					in.goPanic("assignment to entry in nil map")
				}
				in.mapSet(m.M, in.get(fr, x.Key), in.get(fr, x.Value))
			case *ssa.DebugRef:
			case ssa.Value:
				fr.locals[x] = in.eval(fr, x)
			default:
				in.unmodelled(fmt.Sprintf("instruction %T", instr))
			}
			if next != nil {
				break
			}
		}
		if next == nil {
			panic(fmt.Sprintf("block %d of %s fell through", block.Index, fn))
		}
		prev, block = block, next
	}
}

func describe(v Value) string {
	switch x := v.(type) {
	case Iface:
		if x.T == nil {
			return "nil"
		}
		return describe(x.V)
	case string:
		return x
	case *sym.Term:
		if x.IsConst() {
			return fmt.Sprint(x.C)
		}
		return "<sym>"
	}
	return fmt.Sprintf("%T", v)
}

// get returns the value of an SSA operand.
func (in *Interp) get(fr *frame, v ssa.Value) Value {
	switch x := v.(type) {
	case *ssa.Const:
		return in.constValue(x)
	case *ssa.Global:
		c, ok := in.Globals[x]
		if !ok {
			// global of a package whose initialiser is not interpreted: zero value
			c = in.newCell(x.Type().(*types.Pointer).Elem())
			c.Name = x.Pkg.Pkg.Name() + "." + x.Name()
			c.Old = true
			// a sentinel error (io.EOF, bufio.ErrTooLong, os.ErrNotExist, ...) is a distinct
			// non-nil value: the code under test compares against it by identity
			if it, ok := c.T.Underlying().(*types.Interface); ok && types.Identical(c.T, types.Universe.Lookup("error").Type()) && it != nil && c.Kids == nil {
				c.V = Iface{T: errType, V: &ErrObj{Site: "sentinel " + c.Name, ID: -1 - len(in.Globals)}}
			}
			if c.Name == "os.Args" {
				// the program name only: options and arguments reach the code under test through the flag stubs
				c.V = in.mkStringSlice([]string{"verif-program"})
			}
			in.Globals[x] = c
		}
		return Ptr{c}
	case *ssa.Function:
		return &Func{Fn: x}
	case *ssa.Builtin:
		return &Func{Builtin: x}
	}
	if r, ok := fr.locals[v]; ok {
		return r
	}
	panic(fmt.Sprintf("get: no value for %s (%T) in %s", v.Name(), v, fr.fn))
}

func (in *Interp) constValue(c *ssa.Const) Value {
	t := c.Type()
	if c.Value == nil {
		return in.zero(t)
	}
	if tp, ok := unalias(t).(*types.TypeParam); ok {
		_ = tp
		in.unmodelled("constant of type parameter type")
	}
	switch {
	case isBool(t):
		return in.B.Bool(constant.BoolVal(c.Value))
	case isString(t):
		if c.Value.Kind() == constant.String {
			return constant.StringVal(c.Value)
		}
		return ""
	case isFloat(t):
		return Opaque{"float"}
	}
	if w, _, ok := in.intWidth(t); ok {
		if u, exact := constant.Uint64Val(constant.ToInt(c.Value)); exact {
			return in.B.Const(w, u)
		}
		i, _ := constant.Int64Val(constant.ToInt(c.Value))
		return in.B.Const(w, uint64(i))
	}
	panic(fmt.Sprintf("constValue: %v : %v", c, t))
}

// tryMerge if-converts a pure triangle/diamond hanging off block. It returns
// the join block, or nil if the shape does not qualify.
func (in *Interp) tryMerge(fr *frame, block *ssa.BasicBlock, cond *sym.Term) *ssa.BasicBlock {
	bt, bf := block.Succs[0], block.Succs[1]
	pureSide := func(b *ssa.BasicBlock) (*ssa.BasicBlock, bool) {
		if len(b.Preds) != 1 || len(b.Succs) != 1 {
			return nil, false
		}
		for _, ins := range b.Instrs[:len(b.Instrs)-1] {
			switch y := ins.(type) {
			case *ssa.BinOp:
				if y.Op == token.QUO || y.Op == token.REM {
					return nil, false
				}
				if _, _, ok := in.intWidth(y.X.Type()); !ok && !isBool(y.X.Type()) {
					return nil, false
				}
			case *ssa.UnOp:
				if y.Op == token.MUL || y.Op == token.ARROW {
					return nil, false
				}
			case *ssa.Convert:
				_, _, ok1 := in.intWidth(y.X.Type())
				_, _, ok2 := in.intWidth(y.Type())
				if !ok1 || !ok2 {
					return nil, false
				}
			case *ssa.ChangeType, *ssa.DebugRef:
			default:
				return nil, false
			}
		}
		if _, ok := b.Instrs[len(b.Instrs)-1].(*ssa.Jump); !ok {
			return nil, false
		}
		return b.Succs[0], true
	}
	var join, predT, predF *ssa.BasicBlock
	var sides []*ssa.BasicBlock
	jt, okT := pureSide(bt)
	jf, okF := pureSide(bf)
	switch {
	case okT && jt == bf && bt != bf:
		join, predT, predF, sides = bf, bt, block, []*ssa.BasicBlock{bt}
	case okF && jf == bt && bt != bf:
		join, predT, predF, sides = bt, block, bf, []*ssa.BasicBlock{bf}
	case okT && okF && jt == jf:
		join, predT, predF, sides = jt, bt, bf, []*ssa.BasicBlock{bt, bf}
	default:
		return nil
	}
	// the join must not see the same predecessor twice
	cnt := 0
	for _, p := range join.Preds {
		if p == predT || p == predF {
			cnt++
		}
	}
	if cnt != 2 {
		return nil
	}
	// speculatively evaluate the sides
	for _, s := range sides {
		for _, ins := range s.Instrs[:len(s.Instrs)-1] {
			if v, ok := ins.(ssa.Value); ok {
				fr.locals[v] = in.eval(fr, v)
			}
		}
	}
	// all phis of the join must merge to scalars
	it, iF := -1, -1
	for k, p := range join.Preds {
		if p == predT {
			it = k
		}
		if p == predF {
			iF = k
		}
	}
	for _, ins := range join.Instrs {
		phi, ok := ins.(*ssa.Phi)
		if !ok {
			break
		}
		a, b := in.get(fr, phi.Edges[it]), in.get(fr, phi.Edges[iF])
		if !in.canIte(a, b) {
			return nil
		}
	}
	fr.merge = &phiMerge{cond: cond, predT: predT, predF: predF}
	return join
}

func (in *Interp) canIte(a, b Value) bool {
	ta, ok1 := a.(*sym.Term)
	tb, ok2 := b.(*sym.Term)
	if ok1 && ok2 {
		return ta.S == tb.S
	}
	if sa, ok := a.(string); ok {
		if sb, ok := b.(string); ok {
			return sa == sb
		}
	}
	return false
}

func (in *Interp) iteValue(c *sym.Term, a, b Value) Value {
	ta, ok1 := a.(*sym.Term)
	tb, ok2 := b.(*sym.Term)
	if ok1 && ok2 {
		return in.B.Ite(c, ta, tb)
	}
	return a
}

// ---------------------------------------------------------------------------
// Calls

func (in *Interp) prepareCall(fr *frame, call *ssa.CallCommon) (fnv Value, args []Value) {
	if call.IsInvoke() {
		recv := in.get(fr, call.Value).(Iface)
		if recv.T == nil {
			in.goPanic("method call on nil interface")
		}
		for _, a := range call.Args {
			args = append(args, in.get(fr, a))
		}
		if eo, ok := recv.V.(*ErrObj); ok {
			return &Func{Recv: eo, Builtin: nil, Fn: nil, Env: []Value{call.Method.Name()}}, args
		}
		fn := in.lookupMethod(recv.T, call.Method)
		if fn == nil {
			in.unmodelled(fmt.Sprintf("no method %s on %v", call.Method.Name(), recv.T))
		}
		return &Func{Fn: fn}, append([]Value{recv.V}, args...)
	}
	fnv = in.get(fr, call.Value)
	for _, a := range call.Args {
		args = append(args, in.get(fr, a))
	}
	return fnv, args
}

func (in *Interp) lookupMethod(t types.Type, m *types.Func) *ssa.Function {
	sel := in.Prog.MethodSets.MethodSet(t).Lookup(m.Pkg(), m.Name())
	if sel == nil {
		return nil
	}
	return in.Prog.MethodValue(sel)
}

func (in *Interp) doCall(fnv Value, args []Value, site ssa.CallInstruction) Value {
	f, ok := fnv.(*Func)
	if !ok || f == nil {
		in.goPanic("call of nil function")
	}
	if f.Recv != nil {
		// method on an opaque error object
		name := f.Env[0].(string)
		eo := f.Recv.(*ErrObj)
		switch name {
		case "Error":
			return "error@" + eo.Site
		case "Unwrap":
			if eo.Wrap != nil {
				return eo.Wrap
			}
			return Iface{}
		}
		in.unmodelled("method " + name + " on opaque error")
	}
	if f.Builtin != nil {
		return in.callBuiltin(f.Builtin, args, site)
	}
	return in.callFunction(f.Fn, args, f.Env, site)
}

func (in *Interp) callBuiltin(b *ssa.Builtin, args []Value, site ssa.CallInstruction) Value {
	switch b.Name() {
	case "len":
		switch x := args[0].(type) {
		case string:
			return in.B.Const(in.WordBits, uint64(len(x)))
		case Slice:
			if x.Len < 0 {
				in.unmodelled("len of the bytes of a symbolic string")
			}
			return in.B.Const(in.WordBits, uint64(x.Len))
		case Map:
			if x.M == nil {
				return in.B.Const(in.WordBits, 0)
			}
			return in.B.Const(in.WordBits, uint64(len(x.M.Keys)))
		case *Array:
			return in.B.Const(in.WordBits, uint64(len(x.E)))
		case Ptr: // *array
			return in.B.Const(in.WordBits, uint64(len(x.C.Kids)))
		case *SymStr:
			return in.symStrLen(x)
		case AbsSlice:
			return x.A.Len
		}
	case "cap":
		switch x := args[0].(type) {
		case Slice:
			return in.B.Const(in.WordBits, uint64(x.Cap))
		case *Array:
			return in.B.Const(in.WordBits, uint64(len(x.E)))
		case Ptr:
			return in.B.Const(in.WordBits, uint64(len(x.C.Kids)))
		}
	case "append":
		var elemT types.Type
		if site != nil {
			elemT = under(site.Common().Args[0].Type()).(*types.Slice).Elem()
		}
		if as, ok := args[0].(AbsSlice); ok {
			if bs, ok := args[1].(AbsSlice); ok {
				return in.absAppend(as.A, bs.A)
			}
			in.unmodelled("append of a concrete slice to an abstract one")
		}
		s := args[0].(Slice)
		// byte buffers that stand for symbolic strings (opaque length): the result stands for the concatenation
		strOf := func(v Value) (Value, bool) {
			switch x := v.(type) {
			case string:
				return x, true
			case *SymStr:
				return x, true
			case Slice:
				if x.Len < 0 {
					if ss := in.taggedString(x); ss != nil {
						return ss, true
					}
					return nil, false
				}
				if x.Arr == nil || x.Len == 0 {
					return "", true
				}
				if ss := in.taggedString(x); ss != nil && in.bufTags != nil && in.bufTags[x.Arr] != nil {
					return ss, true
				}
				bs := make([]*sym.Term, 0, x.Len)
				for i := 0; i < x.Len; i++ {
					t, ok := in.load(x.Arr.Kids[x.Off+i]).(*sym.Term)
					if !ok {
						return nil, false
					}
					bs = append(bs, t)
				}
				return in.mkByteStr(bs), true
			}
			return nil, false
		}
		opaque := func(v Value) bool {
			x, ok := v.(Slice)
			if ok && x.Len < 0 {
				return true
			}
			_, isSym := v.(*SymStr)
			return isSym
		}
		if opaque(args[0]) || opaque(args[1]) {
			a, ok1 := strOf(args[0])
			b, ok2 := strOf(args[1])
			if !ok1 || !ok2 {
				in.unmodelled("append involving an opaque buffer")
			}
			var cat Value
			if as, ok := a.(string); ok {
				if bs, ok2 := b.(string); ok2 {
					cat = as + bs
				}
			}
			if cat == nil {
				cat = in.symStrBinop(token.ADD, a, b)
			}
			if cs, ok := cat.(string); ok {
				return in.bytesOf(cs)
			}
			return in.bytesOfSym(cat.(*SymStr))
		}
		switch t := args[1].(type) {
		case Slice:
			return in.appendSlice(s, t, elemT)
		case string:
			// append([]byte, string...)
			tmp := in.bytesOf(t)
			return in.appendSlice(s, tmp, elemT)
		}
	case "copy":
		dst := args[0].(Slice)
		var n int
		switch src := args[1].(type) {
		case Slice:
			n = dst.Len
			if src.Len < n {
				n = src.Len
			}
			tmp := make([]Value, n)
			for i := 0; i < n; i++ {
				tmp[i] = in.load(src.Arr.Kids[src.Off+i])
			}
			for i := 0; i < n; i++ {
				in.store(dst.Arr.Kids[dst.Off+i], tmp[i])
			}
		case string:
			n = dst.Len
			if len(src) < n {
				n = len(src)
			}
			for i := 0; i < n; i++ {
				in.store(dst.Arr.Kids[dst.Off+i], in.B.Const(8, uint64(src[i])))
			}
		}
		return in.B.Const(in.WordBits, uint64(n))
	case "delete":
		m := args[0].(Map)
		if m.M != nil {
			in.mapDelete(m.M, args[1])
		}
		return nil
	case "print", "println":
		return nil
	case "min", "max":
		acc := args[0].(*sym.Term)
		_, signed, _ := in.intWidth(site.Common().Args[0].Type())
		for _, a := range args[1:] {
			y := a.(*sym.Term)
			var lt *sym.Term
			if signed {
				lt = in.B.SLt(y, acc)
			} else {
				lt = in.B.ULt(y, acc)
			}
			if b.Name() == "max" {
				lt = in.B.Not(in.B.Or(lt, in.B.Eq(y, acc)))
			}
			acc = in.B.Ite(lt, y, acc)
		}
		return acc
	case "ssa:wrapnilchk":
		if isNilPtr(args[0]) {
			in.goPanic("value method called with nil pointer")
		}
		return args[0]
	case "Slice": // unsafe.Slice
		p := args[0].(Ptr)
		n, ok := concreteInt(args[1])
		if !ok {
			in.unmodelled("unsafe.Slice with symbolic length")
		}
		if p.C == nil {
			return Slice{}
		}
		if p.C.Parent == nil {
			if n > 1 {
				in.goPanic("unsafe.Slice beyond the allocation")
			}
			// single object: wrap in a one-element view
			arr := &Cell{T: types.NewArray(p.C.T, 1), Kids: []*Cell{p.C}}
			return Slice{Arr: arr, Off: 0, Len: int(n), Cap: 1}
		}
		avail := len(p.C.Parent.Kids) - p.C.Idx
		if int(n) > avail {
			in.goPanic(fmt.Sprintf("unsafe.Slice: %d elements requested, %d available in the allocation", n, avail))
		}
		return Slice{Arr: p.C.Parent, Off: p.C.Idx, Len: int(n), Cap: avail}
	case "close":
		c := in.chanOf(args[0])
		if c.Closed {
			in.goPanic("close of closed channel")
		}
		c.Closed = true
		return nil
	case "recover":
		// effective only when called directly by a deferred function while its caller is panicking
		if n := len(in.stack); n >= 2 {
			if pf := in.stack[n-2]; pf.panicking != nil && !pf.recovered {
				pf.recovered = true
				if pf.panicking.val != nil {
					return pf.panicking.val
				}
				return in.newError("runtime error: "+pf.panicking.msg, nil)
			}
		}
		return Iface{}
	case "clear":
		switch x := args[0].(type) {
		case Map:
			if x.M != nil {
				for _, k := range append([]string(nil), x.M.Keys...) {
					in.mapDelete(x.M, x.M.Ent[k].K)
				}
			}
		}
		return nil
	}
	in.unmodelled("builtin " + b.Name())
	return nil
}

func concreteInt(v Value) (int64, bool) {
	t, ok := v.(*sym.Term)
	if !ok || !t.IsConst() {
		return 0, false
	}
	if t.S.W < 64 {
		return int64(t.C), true
	}
	return int64(t.C), true
}

func (in *Interp) bytesOf(s string) Slice {
	arr := in.newArrayCell(types.Typ[types.Uint8], len(s))
	for i := 0; i < len(s); i++ {
		arr.Kids[i].V = in.B.Const(8, uint64(s[i]))
	}
	return Slice{Arr: arr, Off: 0, Len: len(s), Cap: len(s)}
}

func (in *Interp) appendSlice(s, t Slice, elemT types.Type) Slice {
	if t.Len == 0 {
		return s
	}
	n := s.Len + t.Len
	vals := make([]Value, t.Len)
	for i := 0; i < t.Len; i++ {
		vals[i] = in.load(t.Arr.Kids[t.Off+i])
	}
	if n <= s.Cap {
		for i := 0; i < t.Len; i++ {
			in.store(s.Arr.Kids[s.Off+s.Len+i], vals[i])
		}
		return Slice{Arr: s.Arr, Off: s.Off, Len: n, Cap: s.Cap}
	}
	newCap := s.Cap * 2
	if newCap < n {
		newCap = n
	}
	if elemT == nil {
		if s.Arr != nil {
			elemT = under(s.Arr.T).(*types.Array).Elem()
		} else {
			elemT = under(t.Arr.T).(*types.Array).Elem()
		}
	}
	arr := in.newArrayCell(elemT, newCap)
	for i := 0; i < s.Len; i++ {
		in.store(arr.Kids[i], in.load(s.Arr.Kids[s.Off+i]))
	}
	for i := 0; i < t.Len; i++ {
		in.store(arr.Kids[s.Len+i], vals[i])
	}
	return Slice{Arr: arr, Off: 0, Len: n, Cap: newCap}
}

// ---------------------------------------------------------------------------
// Instruction evaluation

func (in *Interp) eval(fr *frame, v ssa.Value) Value {
	switch x := v.(type) {
	case *ssa.Alloc:
		return Ptr{in.newCell(x.Type().(*types.Pointer).Elem())}
	case *ssa.BinOp:
		return in.binop(x.Op, x.X.Type(), in.get(fr, x.X), in.get(fr, x.Y), x.Y.Type())
	case *ssa.UnOp:
		return in.unop(fr, x)
	case *ssa.Call:
		fnv, args := in.prepareCall(fr, &x.Call)
		return in.doCall(fnv, args, x)
	case *ssa.ChangeInterface:
		return in.get(fr, x.X)
	case *ssa.ChangeType:
		return in.get(fr, x.X)
	case *ssa.Convert:
		return in.convert(in.get(fr, x.X), x.X.Type(), x.Type())
	case *ssa.MakeInterface:
		return Iface{T: x.X.Type(), V: in.get(fr, x.X)}
	case *ssa.Extract:
		return in.get(fr, x.Tuple).(Tuple)[x.Index]
	case *ssa.Slice:
		return in.sliceOp(fr, x)
	case *ssa.FieldAddr:
		p := in.get(fr, x.X).(Ptr)
		if p.C == nil {
			in.goPanic("nil pointer dereference (field address)")
		}
		return Ptr{p.C.Kids[x.Field]}
	case *ssa.Field:
		return in.get(fr, x.X).(*Struct).F[x.Field]
	case *ssa.IndexAddr:
		return in.indexAddr(fr, x)
	case *ssa.Index:
		a := in.get(fr, x.X)
		idx := in.get(fr, x.Index).(*sym.Term)
		switch arr := a.(type) {
		case *Array:
			i := in.concreteIndex(idx, len(arr.E), x.Index.Type())
			return arr.E[i]
		case string:
			i := in.concreteIndex(idx, len(arr), x.Index.Type())
			return in.B.Const(8, uint64(arr[i]))
		case *SymStr:
			if arr.Bytes != nil {
				return arr.Bytes[in.concreteIndex(idx, len(arr.Bytes), x.Index.Type())]
			}
		}
		in.unmodelled(fmt.Sprintf("Index on %T", a))
	case *ssa.Lookup:
		return in.lookup(fr, x)
	case *ssa.MakeMap:
		mt := under(x.Type()).(*types.Map)
		return Map{&MapObj{Ent: map[string]*MapEntry{}, KT: mt.Key(), VT: mt.Elem()}}
	case *ssa.MakeSlice:
		n, ok1 := concreteInt(in.get(fr, x.Len))
		c, ok2 := concreteInt(in.get(fr, x.Cap))
		if !ok1 || !ok2 {
			in.unmodelled("make([]T, n) with symbolic size")
		}
		if n < 0 || c < n {
			in.goPanic("makeslice: len out of range")
		}
		if c > 1<<22 {
			in.unmodelled("make([]T, n) too large")
		}
		elem := under(x.Type()).(*types.Slice).Elem()
		return Slice{Arr: in.newArrayCell(elem, int(c)), Off: 0, Len: int(n), Cap: int(c)}
	case *ssa.MakeClosure:
		f := &Func{Fn: x.Fn.(*ssa.Function)}
		for _, b := range x.Bindings {
			f.Env = append(f.Env, in.get(fr, b))
		}
		return f
	case *ssa.Range:
		switch c := in.get(fr, x.X).(type) {
		case Map:
			return in.newMapIter(c)
		case string:
			return &StrIter{S: c}
		case *SymStr:
			if c.Bytes != nil {
				return &StrIter{B: c.Bytes}
			}
		}
		in.unmodelled("range over unsupported value")
	case *ssa.Next:
		return in.next(fr, x)
	case *ssa.TypeAssert:
		return in.typeAssert(fr, x)
	case *ssa.Phi:
		panic("phi outside block head")
	case *ssa.SliceToArrayPointer:
		s := in.get(fr, x.X).(Slice)
		n := int(under(x.Type().(*types.Pointer).Elem()).(*types.Array).Len())
		if s.Len < n {
			in.goPanic("slice to array pointer: slice too short")
		}
		if s.Off == 0 && len(s.Arr.Kids) == n {
			return Ptr{s.Arr}
		}
		view := &Cell{T: x.Type().(*types.Pointer).Elem(), Kids: s.Arr.Kids[s.Off : s.Off+n]}
		return Ptr{view}
	case *ssa.MakeChan:
		n, ok := concreteInt(in.get(fr, x.Size))
		if !ok {
			in.unmodelled("make(chan T, n) with symbolic size")
		}
		return &ChanObj{Cap: int(n), Elem: under(x.Type()).(*types.Chan).Elem()}
	case *ssa.Select:
		return in.selectOp(fr, x)
	}
	in.unmodelled(fmt.Sprintf("instruction %T", v))
	return nil
}

func (in *Interp) concreteIndex(idx *sym.Term, n int, it types.Type) int {
	_, signed, _ := in.intWidth(it)
	if idx.IsConst() {
		i := int64(idx.C)
		if signed && idx.S.W < 64 {
			sh := uint(64 - idx.S.W)
			i = int64(idx.C<<sh) >> sh
		}
		if i < 0 || i >= int64(n) {
			in.goPanic(fmt.Sprintf("index out of range [%d] with length %d", i, n))
		}
		return int(i)
	}
	// symbolic index: fork over in-range values and the out-of-range case
	conds := make([]*sym.Term, n+1)
	var inRange []*sym.Term
	for i := 0; i < n; i++ {
		conds[i] = in.B.Eq(idx, in.B.Const(idx.S.W, uint64(i)))
		inRange = append(inRange, conds[i])
	}
	conds[n] = in.B.Not(in.B.Or(inRange...))
	k := in.chooseN(conds)
	if k == n {
		in.goPanic(fmt.Sprintf("index out of range [symbolic] with length %d", n))
	}
	return k
}

func (in *Interp) indexAddr(fr *frame, x *ssa.IndexAddr) Value {
	base := in.get(fr, x.X)
	idx := in.get(fr, x.Index).(*sym.Term)
	switch b := base.(type) {
	case AbsSlice:
		_, signed, _ := in.intWidth(x.Index.Type())
		return in.absIndexAddr(b.A, idx, signed)
	case Slice:
		if b.Len < 0 {
			in.unmodelled("index into the bytes of a symbolic string")
		}
		i := in.concreteIndex(idx, b.Len, x.Index.Type())
		return Ptr{b.Arr.Kids[b.Off+i]}
	case Ptr:
		if b.C == nil {
			in.goPanic("nil pointer dereference (index address)")
		}
		i := in.concreteIndex(idx, len(b.C.Kids), x.Index.Type())
		return Ptr{b.C.Kids[i]}
	}
	in.unmodelled(fmt.Sprintf("IndexAddr on %T", base))
	return nil
}

func (in *Interp) sliceOp(fr *frame, x *ssa.Slice) Value {
	base := in.get(fr, x.X)
	geti := func(v ssa.Value, def int) int {
		if v == nil {
			return def
		}
		n, ok := concreteInt(in.get(fr, v))
		if !ok {
			in.unmodelled("slice expression with symbolic bound")
		}
		return int(n)
	}
	if as, ok := base.(AbsSlice); ok {
		var lo, hi *sym.Term
		if x.Low != nil {
			lo = in.get(fr, x.Low).(*sym.Term)
		}
		if x.High != nil {
			hi = in.get(fr, x.High).(*sym.Term)
		}
		if x.Max != nil {
			in.unmodelled("three-index slice of an abstract slice")
		}
		return in.absSlice(as.A, lo, hi)
	}
	switch b := base.(type) {
	case string:
		lo := geti(x.Low, 0)
		hi := geti(x.High, len(b))
		if lo < 0 || hi > len(b) || lo > hi {
			in.goPanic(fmt.Sprintf("slice bounds out of range [%d:%d] with length %d", lo, hi, len(b)))
		}
		return b[lo:hi]
	case *SymStr:
		return in.symStrSlice(b, x, fr)
	case Slice:
		lo := geti(x.Low, 0)
		hi := geti(x.High, b.Len)
		mx := geti(x.Max, b.Cap)
		if lo < 0 || hi > b.Cap || lo > hi || mx > b.Cap || hi > mx {
			in.goPanic(fmt.Sprintf("slice bounds out of range [%d:%d:%d] with capacity %d", lo, hi, mx, b.Cap))
		}
		if b.Arr == nil {
			return Slice{}
		}
		return Slice{Arr: b.Arr, Off: b.Off + lo, Len: hi - lo, Cap: mx - lo}
	case Ptr: // *array
		if b.C == nil {
			in.goPanic("nil pointer dereference (slice of nil array pointer)")
		}
		n := len(b.C.Kids)
		lo := geti(x.Low, 0)
		hi := geti(x.High, n)
		mx := geti(x.Max, n)
		if lo < 0 || hi > n || lo > hi || mx > n || hi > mx {
			in.goPanic("slice bounds out of range")
		}
		return Slice{Arr: b.C, Off: lo, Len: hi - lo, Cap: mx - lo}
	}
	in.unmodelled(fmt.Sprintf("Slice on %T", base))
	return nil
}

func (in *Interp) newMapIter(m Map) *MapIter {
	it := &MapIter{M: m.M}
	if m.M == nil {
		return it
	}
	switch in.MapOrder {
	case "desc":
		it.Keys = m.M.sortedKeys(true)
	case "all":
		keys := m.M.sortedKeys(false)
		if len(keys) <= 3 && len(keys) > 1 {
			perms := permutations(len(keys))
			conds := make([]*sym.Term, len(perms))
			k := in.chooseN(conds)
			for _, j := range perms[k] {
				it.Keys = append(it.Keys, keys[j])
			}
		} else {
			it.Keys = keys
		}
	default:
		it.Keys = m.M.sortedKeys(false)
	}
	return it
}

func permutations(n int) [][]int {
	var out [][]int
	var rec func(cur []int, used []bool)
	rec = func(cur []int, used []bool) {
		if len(cur) == n {
			out = append(out, append([]int(nil), cur...))
			return
		}
		for i := 0; i < n; i++ {
			if !used[i] {
				used[i] = true
				rec(append(cur, i), used)
				used[i] = false
			}
		}
	}
	rec(nil, make([]bool, n))
	return out
}

func (in *Interp) next(fr *frame, x *ssa.Next) Value {
	switch it := in.get(fr, x.Iter).(type) {
	case *MapIter:
		for it.Pos < len(it.Keys) {
			k := it.Keys[it.Pos]
			it.Pos++
			e, ok := it.M.Ent[k]
			if !ok {
				continue // deleted during iteration
			}
			return Tuple{in.B.True(), e.K, e.V}
		}
		tt := x.Type().(*types.Tuple)
		return Tuple{in.B.False(), in.zeroOrNil(tt.At(1).Type()), in.zeroOrNil(tt.At(2).Type())}
	case *StrIter:
		if it.B != nil {
			// byte-vector strings are 7-bit ASCII: one rune per byte
			if it.Pos >= len(it.B) {
				return Tuple{in.B.False(), in.B.Const(in.WordBits, 0), in.B.Const(32, 0)}
			}
			it.Pos++
			return Tuple{in.B.True(), in.B.Const(in.WordBits, uint64(it.Pos-1)), in.B.ZExt(32, it.B[it.Pos-1])}
		}
		if it.Pos >= len(it.S) {
			return Tuple{in.B.False(), in.B.Const(in.WordBits, 0), in.B.Const(32, 0)}
		}
		pos := it.Pos
		var r rune
		var size int
		for i, rr := range it.S[pos:] {
			if i == 0 {
				r = rr
				continue
			}
			size = i
			break
		}
		if size == 0 {
			size = len(it.S) - pos
		}
		it.Pos += size
		return Tuple{in.B.True(), in.B.Const(in.WordBits, uint64(pos)), in.B.Const(32, uint64(uint32(r)))}
	}
	in.unmodelled("next on unsupported iterator")
	return nil
}

func (in *Interp) zeroOrNil(t types.Type) Value {
	if b, ok := t.(*types.Basic); ok && b.Kind() == types.Invalid {
		return nil
	}
	return in.zero(t)
}

func (in *Interp) lookup(fr *frame, x *ssa.Lookup) Value {
	base := in.get(fr, x.X)
	switch b := base.(type) {
	case string:
		idx := in.get(fr, x.Index).(*sym.Term)
		i := in.concreteIndex(idx, len(b), x.Index.Type())
		return in.B.Const(8, uint64(b[i]))
	case *SymStr:
		if b.Bytes == nil {
			in.unmodelled("byte index into a symbolic string")
		}
		idx := in.get(fr, x.Index).(*sym.Term)
		return b.Bytes[in.concreteIndex(idx, len(b.Bytes), x.Index.Type())]
	case Map:
		mt := under(x.X.Type()).(*types.Map)
		key := in.get(fr, x.Index)
		if x.CommaOk && !valueUsed(x) {
			if _, conc := in.canonKey(key); (!conc || (b.M != nil && b.M.SymKeys)) && b.M != nil {
				var eqs []*sym.Term
				for _, k := range b.M.sortedKeys(false) {
					eqs = append(eqs, in.eqValues(key, b.M.Ent[k].K))
				}
				return Tuple{in.zero(mt.Elem()), in.B.Or(eqs...)}
			}
		}
		v, ok := in.mapLookup(b, key, mt)
		if x.CommaOk {
			return Tuple{v, ok}
		}
		return v
	}
	in.unmodelled(fmt.Sprintf("Lookup on %T", base))
	return nil
}

// mapLookup handles concrete keys directly and symbolic keys by an ite chain
// (scalar elements) or by forking over the entries (other elements).
func (in *Interp) mapLookup(m Map, key Value, mt *types.Map) (Value, *sym.Term) {
	zero := in.zero(mt.Elem())
	if m.M == nil {
		return zero, in.B.False()
	}
	if ck, ok := in.canonKey(key); ok && !m.M.SymKeys {
		if e, ok := m.M.Ent[ck]; ok {
			return e.V, in.B.True()
		}
		return zero, in.B.False()
	}
	// symbolic key
	keys := m.M.sortedKeys(false)
	eqs := make([]*sym.Term, len(keys))
	for i, k := range keys {
		eqs[i] = in.eqValues(key, m.M.Ent[k].K)
	}
	found := in.B.Or(eqs...)
	if zt, ok := zero.(*sym.Term); ok {
		acc := zt
		for i := len(keys) - 1; i >= 0; i-- {
			acc = in.B.Ite(eqs[i], m.M.Ent[keys[i]].V.(*sym.Term), acc)
		}
		return acc, found
	}
	if zs, isStruct := zero.(*Struct); isStruct && len(zs.F) == 0 {
		return zero, found
	}
	if _, isStr := zero.(string); isStr {
		// string elements: an ite chain over equality atoms
		allStr := true
		for _, k := range keys {
			if _, ok := m.M.Ent[k].V.(string); !ok {
				allStr = false
			}
		}
		if allStr {
			acc := in.atomTerm("")
			for i := len(keys) - 1; i >= 0; i-- {
				acc = in.B.Ite(eqs[i], in.atomTerm(m.M.Ent[keys[i]].V), acc)
			}
			return &SymStr{Atom: acc}, found
		}
	}
	// fork: one alternative per entry plus "absent"
	conds := append(append([]*sym.Term(nil), eqs...), in.B.Not(found))
	k := in.chooseN(conds)
	if k == len(keys) {
		return zero, in.B.False()
	}
	return m.M.Ent[keys[k]].V, in.B.True()
}

// valueUsed reports whether the value component of a comma-ok lookup is used.
func valueUsed(x *ssa.Lookup) bool {
	refs := x.Referrers()
	if refs == nil {
		return true
	}
	for _, r := range *refs {
		e, ok := r.(*ssa.Extract)
		if !ok {
			if _, dbg := r.(*ssa.DebugRef); dbg {
				continue
			}
			return true
		}
		if e.Index == 0 {
			if rr := e.Referrers(); rr == nil || len(*rr) > 0 {
				return true
			}
		}
	}
	return false
}

func (in *Interp) typeAssert(fr *frame, x *ssa.TypeAssert) Value {
	v := in.get(fr, x.X).(Iface)
	var ok bool
	var res Value
	if types.IsInterface(x.AssertedType) {
		if v.T != nil {
			if _, isErr := v.V.(*ErrObj); isErr {
				it := under(x.AssertedType).(*types.Interface)
				ok = it.NumMethods() == 0 || (it.NumMethods() == 1 && it.Method(0).Name() == "Error")
			} else {
				ok = types.Implements(v.T, under(x.AssertedType).(*types.Interface))
			}
		}
		res = v
		if !ok {
			res = Iface{}
		}
	} else {
		ok = v.T != nil && types.Identical(v.T, x.AssertedType)
		if ok {
			res = v.V
		} else {
			res = in.zero(x.AssertedType)
		}
	}
	if x.CommaOk {
		return Tuple{res, in.B.Bool(ok)}
	}
	if !ok {
		in.goPanic(fmt.Sprintf("interface conversion: %v is not %v", v.T, x.AssertedType))
	}
	return res
}

func (in *Interp) unop(fr *frame, x *ssa.UnOp) Value {
	v := in.get(fr, x.X)
	switch x.Op {
	case token.MUL:
		p, ok := v.(Ptr)
		if !ok {
			in.unmodelled(fmt.Sprintf("load through %T", v))
		}
		if p.C == nil {
			in.goPanic("nil pointer dereference")
		}
		return in.load(p.C)
	case token.NOT:
		return in.B.Not(v.(*sym.Term))
	case token.SUB:
		if t, ok := v.(*sym.Term); ok {
			return in.B.Neg(t)
		}
		return Opaque{"float"}
	case token.XOR:
		return in.B.BNot(v.(*sym.Term))
	case token.ARROW:
		val, ok := in.chanRecv(v)
		if x.CommaOk {
			return Tuple{val, in.B.Bool(ok)}
		}
		return val
	}
	in.unmodelled("unop " + x.Op.String())
	return nil
}

func (in *Interp) binop(op token.Token, xt types.Type, a, b Value, yt types.Type) Value {
	switch x := a.(type) {
	case *sym.Term:
		y, ok := b.(*sym.Term)
		if !ok {
			in.unmodelled(fmt.Sprintf("binop %s on term and %T", op, b))
		}
		if x.S.K == sym.SBool {
			switch op {
			case token.EQL:
				return in.B.Eq(x, y)
			case token.NEQ:
				return in.B.Not(in.B.Eq(x, y))
			case token.LAND, token.AND:
				return in.B.And(x, y)
			case token.LOR, token.OR:
				return in.B.Or(x, y)
			}
			in.unmodelled("bool binop " + op.String())
		}
		_, signed, _ := in.intWidth(xt)
		B := in.B
		switch op {
		case token.ADD:
			return B.Add(x, y)
		case token.SUB:
			return B.Sub(x, y)
		case token.MUL:
			return B.Mul(x, y)
		case token.QUO, token.REM:
			zero := B.Const(y.S.W, 0)
			if in.branch(B.Eq(y, zero)) {
				in.goPanic("integer divide by zero")
			}
			if signed {
				if op == token.QUO {
					return B.SDiv(x, y)
				}
				return B.SRem(x, y)
			}
			if op == token.QUO {
				return B.UDiv(x, y)
			}
			return B.URem(x, y)
		case token.AND:
			return B.BAnd(x, y)
		case token.OR:
			return B.BOr(x, y)
		case token.XOR:
			return B.BXor(x, y)
		case token.AND_NOT:
			return B.BAnd(x, B.BNot(y))
		case token.SHL, token.SHR:
			_, ysigned, _ := in.intWidth(yt)
			if ysigned && !y.IsConst() {
				if in.branch(B.SLt(y, B.Const(y.S.W, 0))) {
					in.goPanic("negative shift amount")
				}
			}
			var amt *sym.Term
			var over *sym.Term = B.False()
			switch {
			case y.S.W == x.S.W:
				amt = y
			case y.S.W < x.S.W:
				amt = B.ZExt(x.S.W, y)
			default:
				amt = B.Extract(x.S.W-1, 0, y)
				over = B.Not(B.Eq(B.Extract(y.S.W-1, x.S.W, y), B.Const(y.S.W-x.S.W, 0)))
			}
			var r, sat *sym.Term
			switch {
			case op == token.SHL:
				r, sat = B.Shl(x, amt), B.Const(x.S.W, 0)
			case signed:
				r, sat = B.AShr(x, amt), B.AShr(x, B.Const(x.S.W, uint64(x.S.W-1)))
			default:
				r, sat = B.LShr(x, amt), B.Const(x.S.W, 0)
			}
			return B.Ite(over, sat, r)
		case token.EQL:
			return B.Eq(x, y)
		case token.NEQ:
			return B.Not(B.Eq(x, y))
		case token.LSS:
			if signed {
				return B.SLt(x, y)
			}
			return B.ULt(x, y)
		case token.LEQ:
			if signed {
				return B.SLe(x, y)
			}
			return B.ULe(x, y)
		case token.GTR:
			if signed {
				return B.SLt(y, x)
			}
			return B.ULt(y, x)
		case token.GEQ:
			if signed {
				return B.SLe(y, x)
			}
			return B.ULe(y, x)
		}
		in.unmodelled("int binop " + op.String())
	case string:
		switch y := b.(type) {
		case string:
			switch op {
			case token.ADD:
				return x + y
			case token.EQL:
				return in.B.Bool(x == y)
			case token.NEQ:
				return in.B.Bool(x != y)
			case token.LSS:
				return in.B.Bool(x < y)
			case token.LEQ:
				return in.B.Bool(x <= y)
			case token.GTR:
				return in.B.Bool(x > y)
			case token.GEQ:
				return in.B.Bool(x >= y)
			}
		case *SymStr:
			return in.symStrBinop(op, a, b)
		}
	case *SymStr:
		return in.symStrBinop(op, a, b)
	case Opaque:
		if op == token.EQL || op == token.NEQ || op == token.LSS || op == token.GTR || op == token.LEQ || op == token.GEQ {
			in.unmodelled("comparison of unmodelled (float/chan) values")
		}
		return Opaque{x.What}
	}
	switch op {
	case token.EQL:
		return in.eqValues(a, b)
	case token.NEQ:
		return in.B.Not(in.eqValues(a, b))
	}
	in.unmodelled(fmt.Sprintf("binop %s on %T", op, a))
	return nil
}

// eqValues is Go's == on two values of the same static type.
func (in *Interp) eqValues(a, b Value) *sym.Term {
	switch x := a.(type) {
	case *sym.Term:
		return in.B.Eq(x, b.(*sym.Term))
	case string:
		switch y := b.(type) {
		case string:
			return in.B.Bool(x == y)
		case *SymStr:
			return in.symStrEq(a, b)
		}
	case *SymStr:
		return in.symStrEq(a, b)
	case Ptr:
		switch y := b.(type) {
		case Ptr:
			return in.B.Bool(x.C == y.C)
		}
	case PtrInt:
		if y, ok := b.(PtrInt); ok {
			return in.B.Bool(x.C == y.C)
		}
		if y, ok := b.(*sym.Term); ok && y.IsConst() {
			return in.B.Bool(x.C == nil && y.C == 0)
		}
	case AbsSlice:
		if y, ok := b.(Slice); ok && y.Arr == nil {
			return in.B.False()
		}
	case Slice:
		if _, ok := b.(AbsSlice); ok && x.Arr == nil {
			return in.B.False()
		}
		y := b.(Slice)
		if x.Arr == nil || y.Arr == nil {
			return in.B.Bool(x.Arr == nil && y.Arr == nil)
		}
	case Map:
		y := b.(Map)
		if x.M == nil || y.M == nil {
			return in.B.Bool(x.M == nil && y.M == nil)
		}
	case *Func:
		y, _ := b.(*Func)
		if x == nil || y == nil {
			return in.B.Bool(x == nil && y == nil)
		}
	case Iface:
		y := b.(Iface)
		if x.T == nil || y.T == nil {
			return in.B.Bool(x.T == nil && y.T == nil)
		}
		if !types.Identical(x.T, y.T) {
			return in.B.False()
		}
		return in.eqValues(x.V, y.V)
	case *Struct:
		y := b.(*Struct)
		var cs []*sym.Term
		for i := range x.F {
			cs = append(cs, in.eqValues(x.F[i], y.F[i]))
		}
		return in.B.And(cs...)
	case *Array:
		y := b.(*Array)
		var cs []*sym.Term
		for i := range x.E {
			cs = append(cs, in.eqValues(x.E[i], y.E[i]))
		}
		return in.B.And(cs...)
	case *ErrObj:
		y, ok := b.(*ErrObj)
		return in.B.Bool(ok && x == y)
	}
	in.unmodelled(fmt.Sprintf("== on %T and %T", a, b))
	return nil
}

func (in *Interp) convert(v Value, from, to types.Type) Value {
	fw, fsigned, fint := in.intWidth(from)
	tw, _, tint := in.intWidth(to)
	switch {
	case fint && tint:
		switch x := v.(type) {
		case *sym.Term:
			if tw <= fw {
				return in.B.Extract(tw-1, 0, x)
			}
			if fsigned {
				return in.B.SExt(tw, x)
			}
			return in.B.ZExt(tw, x)
		case PtrInt:
			return x
		}
	case isFloat(to) || isFloat(from):
		if tint {
			in.unmodelled("float to integer conversion")
		}
		return Opaque{"float"}
	}
	ut, uf := under(to), under(from)
	// unsafe.Pointer / pointer / uintptr
	if b, ok := ut.(*types.Basic); ok && b.Kind() == types.UnsafePointer {
		switch x := v.(type) {
		case Ptr:
			return x
		case PtrInt:
			return Ptr{x.C}
		case *sym.Term:
			if x.IsConst() && x.C == 0 {
				return Ptr{}
			}
			in.unmodelled("integer to unsafe.Pointer")
		}
	}
	if b, ok := uf.(*types.Basic); ok && b.Kind() == types.UnsafePointer {
		p := v.(Ptr)
		if tint {
			if p.C == nil {
				return in.B.Const(tw, 0)
			}
			return PtrInt{p.C}
		}
		if _, ok := ut.(*types.Pointer); ok {
			return p
		}
	}
	if _, ok := ut.(*types.Pointer); ok {
		if _, ok := uf.(*types.Pointer); ok {
			return v
		}
	}
	// string conversions
	if isString(to) {
		switch x := v.(type) {
		case string:
			return x
		case *SymStr:
			return x
		case Slice: // []byte or []rune -> string
			elem := under(from).(*types.Slice).Elem()
			w, _, _ := in.intWidth(elem)
			if x.Arr != nil {
				if ss := in.taggedString(x); ss != nil {
					return ss
				}
			}
			if w == 8 && x.Len >= 0 {
				// symbolic bytes: a byte-vector string (only meaningful while the bytes are 7-bit ASCII,
				// which holds for everything derived from vBytesStr by case mapping and copying)
				bs := make([]*sym.Term, x.Len)
				symbolic := false
				for i := 0; i < x.Len; i++ {
					t, ok := in.load(x.Arr.Kids[x.Off+i]).(*sym.Term)
					if !ok {
						in.unmodelled("string(bytes) of a non-integer element")
					}
					bs[i] = t
					symbolic = symbolic || !t.IsConst()
				}
				if symbolic {
					return in.mkByteStr(bs)
				}
			}
			var sb strings.Builder
			for i := 0; i < x.Len; i++ {
				t, ok := in.load(x.Arr.Kids[x.Off+i]).(*sym.Term)
				if !ok || !t.IsConst() {
					in.unmodelled("string(bytes) with symbolic bytes")
				}
				if w == 8 {
					sb.WriteByte(byte(t.C))
				} else {
					sb.WriteRune(rune(t.C))
				}
			}
			return sb.String()
		case *sym.Term:
			if x.IsConst() {
				return string(rune(x.C))
			}
			in.unmodelled("string(symbolic integer)")
		}
	}
	if st, ok := ut.(*types.Slice); ok && isString(from) {
		w, _, _ := in.intWidth(st.Elem())
		switch x := v.(type) {
		case string:
			if w == 8 {
				return in.bytesOf(x)
			}
			rs := []rune(x)
			arr := in.newArrayCell(st.Elem(), len(rs))
			for i, r := range rs {
				arr.Kids[i].V = in.B.Const(32, uint64(uint32(r)))
			}
			return Slice{Arr: arr, Len: len(rs), Cap: len(rs)}
		case *SymStr:
			return in.bytesOfSym(x)
		}
	}
	in.unmodelled(fmt.Sprintf("conversion %v -> %v of %T", from, to, v))
	return nil
}

// SortedCoverTags is a helper for reports.
func SortedKeys(m map[string]int) []string {
	var ks []string
	for k := range m {
		ks = append(ks, k)
	}
	sort.Strings(ks)
	return ks
}
