package gosym

import (
	"fmt"
	"go/types"
	"path/filepath"
	"sort"
	"strconv"
	"strings"

	"golang.org/x/tools/go/ssa"

	"verif/engine/sym"
)

var errNamed = types.NewNamed(types.NewTypeName(0, nil, "verifError", nil), types.NewStruct(nil, nil), nil)
var errType = types.NewPointer(errNamed)

// newError makes an opaque non-nil error value.
func (in *Interp) newError(site string, wrap Value) Value {
	in.errSeq++
	return Iface{T: errType, V: &ErrObj{Site: site, Wrap: wrap, ID: in.errSeq}}
}

func (in *Interp) stringSlice(v Value) ([]Value, bool) {
	s := v.(Slice)
	out := make([]Value, s.Len)
	for i := 0; i < s.Len; i++ {
		out[i] = in.load(s.Arr.Kids[s.Off+i])
	}
	return out, true
}

func (in *Interp) mkStringSlice(ss []string) Slice {
	arr := in.newArrayCell(types.Typ[types.String], len(ss))
	for i, s := range ss {
		arr.Kids[i].V = s
	}
	return Slice{Arr: arr, Len: len(ss), Cap: len(ss)}
}

func registerHost(in *Interp) {
	H := in.Host
	opaqueStr := func(tag string) HostFn {
		return func(in *Interp, a []Value, _ ssa.CallInstruction) Value { return "<" + tag + "@" + in.where() + ">" }
	}
	H["fmt.Sprintf"] = opaqueStr("fmt.Sprintf")
	H["fmt.Sprint"] = opaqueStr("fmt.Sprint")
	H["fmt.Sprintln"] = opaqueStr("fmt.Sprintln")
	H["fmt.Errorf"] = func(in *Interp, a []Value, _ ssa.CallInstruction) Value {
		var wrap Value
		if f, ok := a[0].(string); ok && strings.Contains(f, "%w") {
			va := a[1].(Slice)
			for i := 0; i < va.Len; i++ {
				if e, ok := in.load(va.Arr.Kids[va.Off+i]).(Iface); ok && e.T != nil {
					wrap = e
				}
			}
		}
		return in.newError("fmt.Errorf@"+in.where(), wrap)
	}
	H["errors.New"] = func(in *Interp, a []Value, _ ssa.CallInstruction) Value {
		return in.newError("errors.New@"+in.where(), nil)
	}
	// errors.Is: identity / equality along the %w chain (symbolic errno values give a symbolic answer)
	var errIs func(in *Interp, err, target Value, depth int) *sym.Term
	errIs = func(in *Interp, err, target Value, depth int) *sym.Term {
		e, ok := err.(Iface)
		if !ok || e.T == nil || depth > 16 {
			return in.B.False()
		}
		t := target.(Iface)
		here := in.B.False()
		if t.T != nil {
			_, eObj := e.V.(*ErrObj)
			_, tObj := t.V.(*ErrObj)
			if eObj || tObj {
				if eObj && tObj {
					here = in.B.Bool(e.V == t.V)
				}
			} else if types.Identical(e.T, t.T) {
				here = in.eqValues(e.V, t.V)
			}
		}
		if eo, isObj := e.V.(*ErrObj); isObj && eo.Wrap != nil {
			return in.B.Or(here, errIs(in, eo.Wrap, target, depth+1))
		}
		return here
	}
	H["errors.Is"] = func(in *Interp, a []Value, _ ssa.CallInstruction) Value { return errIs(in, a[0], a[1], 0) }
	H["errors.Unwrap"] = func(in *Interp, a []Value, _ ssa.CallInstruction) Value {
		if e, ok := a[0].(Iface); ok && e.T != nil {
			if eo, isObj := e.V.(*ErrObj); isObj && eo.Wrap != nil {
				return eo.Wrap
			}
		}
		return Iface{}
	}
	ioRes := func(in *Interp, a []Value, _ ssa.CallInstruction) Value {
		return Tuple{in.B.Const(in.WordBits, 0), Iface{}}
	}
	H["fmt.Fprintf"] = ioRes
	H["fmt.Fprintln"] = ioRes
	H["fmt.Fprint"] = ioRes
	H["fmt.Printf"] = ioRes
	H["fmt.Println"] = ioRes
	H["fmt.Print"] = ioRes
	nop := func(in *Interp, a []Value, _ ssa.CallInstruction) Value { return nil }
	H["log.Println"] = nop
	H["log.Printf"] = nop
	H["log.Print"] = nop
	H["strings.ToLower"] = func(in *Interp, a []Value, _ ssa.CallInstruction) Value { return in.lowerOf(a[0]) }
	H["strings.Join"] = func(in *Interp, a []Value, _ ssa.CallInstruction) Value {
		elems, _ := in.stringSlice(a[0])
		sep := str(a[1])
		var parts []string
		for _, e := range elems {
			s, ok := e.(string)
			if !ok {
				return &SymStr{Tag: "join"}
			}
			parts = append(parts, s)
		}
		return strings.Join(parts, sep)
	}
	H["strconv.Itoa"] = func(in *Interp, a []Value, _ ssa.CallInstruction) Value {
		n, ok := concreteInt(a[0])
		if !ok {
			return &SymStr{Tag: "itoa"}
		}
		return strconv.Itoa(int(n))
	}
	H["strconv.Atoi"] = func(in *Interp, a []Value, _ ssa.CallInstruction) Value {
		s, ok := a[0].(string)
		if !ok {
			in.unmodelled("strconv.Atoi on a symbolic string")
		}
		n, err := strconv.Atoi(s)
		if err != nil {
			return Tuple{in.B.Const(in.WordBits, 0), in.newError("strconv.Atoi", nil)}
		}
		return Tuple{in.B.Const(in.WordBits, uint64(int64(n))), Iface{}}
	}
	conc2 := func(kind string, f func(a, b string) bool) HostFn {
		return func(in *Interp, a []Value, _ ssa.CallInstruction) Value {
			x, ok1 := a[0].(string)
			y, ok2 := a[1].(string)
			if !ok1 || !ok2 {
				if l, isLine := a[0].(*SymStr); isLine && l.Line && ok2 {
					switch kind {
					case "contains":
						return in.lineContains(l, y)
					case "prefix":
						return in.lineHasPrefix(l, y)
					case "suffix":
						return in.lineHasSuffix(l, y)
					}
				}
				in.unmodelled("string predicate on a symbolic string")
			}
			return in.B.Bool(f(x, y))
		}
	}
	H["strings.Contains"] = conc2("contains", strings.Contains)
	H["strings.HasPrefix"] = conc2("prefix", strings.HasPrefix)
	H["strings.HasSuffix"] = conc2("suffix", strings.HasSuffix)
	H["strings.EqualFold"] = conc2("fold", strings.EqualFold)
	H["strings.TrimPrefix"] = func(in *Interp, a []Value, _ ssa.CallInstruction) Value {
		c, ok := a[1].(string)
		if !ok {
			in.unmodelled("strings.TrimPrefix with a symbolic prefix")
		}
		switch x := a[0].(type) {
		case string:
			return strings.TrimPrefix(x, c)
		case *SymStr:
			if x.Line {
				if in.branch(in.lineHasPrefix(x, c)) {
					return &SymStr{Str: x.Str, From: x.From + len(c), Line: true}
				}
				return x
			}
		}
		in.unmodelled("strings.TrimPrefix on a symbolic string")
		return nil
	}
	H["path/filepath.Dir"] = func(in *Interp, a []Value, _ ssa.CallInstruction) Value { return filepath.Dir(str(a[0])) }
	H["path/filepath.Base"] = func(in *Interp, a []Value, _ ssa.CallInstruction) Value { return filepath.Base(str(a[0])) }
	H["strings.TrimSpace"] = func(in *Interp, a []Value, _ ssa.CallInstruction) Value {
		if s, ok := a[0].(string); ok {
			return strings.TrimSpace(s)
		}
		return &SymStr{Tag: "trimspace"}
	}
	H["strings.Fields"] = func(in *Interp, a []Value, _ ssa.CallInstruction) Value {
		s, ok := a[0].(string)
		if !ok {
			if l, isLine := a[0].(*SymStr); isLine && l.Line {
				return in.lineFields(l)
			}
			in.unmodelled("strings.Fields on a symbolic string")
		}
		return in.mkStringSlice(strings.Fields(s))
	}
	H["sort.Strings"] = func(in *Interp, a []Value, _ ssa.CallInstruction) Value {
		s := a[0].(Slice)
		var ss []string
		symbolic := false
		for i := 0; i < s.Len; i++ {
			x, ok := in.load(s.Arr.Kids[s.Off+i]).(string)
			if !ok {
				symbolic = true
				break
			}
			ss = append(ss, x)
		}
		in.lastSorted = &sortedRec{s: s}
		if symbolic {
			// equality atoms carry no order: the call is summarised as "some permutation, in place";
			// the harness checks that what is emitted is the slice that was sorted last (vWasSorted)
			for i := 0; i < s.Len; i++ {
				in.lastSorted.vals = append(in.lastSorted.vals, in.load(s.Arr.Kids[s.Off+i]))
			}
			return nil
		}
		orig := append([]string(nil), ss...)
		sort.Strings(ss)
		for i, x := range ss {
			if orig[i] != x { // a sorted slice is not written to
				in.store(s.Arr.Kids[s.Off+i], x)
			}
		}
		for i := 0; i < s.Len; i++ {
			in.lastSorted.vals = append(in.lastSorted.vals, in.load(s.Arr.Kids[s.Off+i]))
		}
		return nil
	}
	H["text/template.New"] = func(in *Interp, a []Value, site ssa.CallInstruction) Value {
		pt := site.Value().Type().(*types.Pointer)
		return Ptr{in.newCell(pt.Elem())}
	}
	H["(*text/template.Template).Parse"] = func(in *Interp, a []Value, site ssa.CallInstruction) Value {
		return Tuple{a[0], Iface{}}
	}
	H["text/template.Must"] = func(in *Interp, a []Value, site ssa.CallInstruction) Value { return a[0] }
	H["runtime.LockOSThread"] = func(in *Interp, a []Value, _ ssa.CallInstruction) Value {
		in.locked++
		return nil
	}
	H["runtime.UnlockOSThread"] = func(in *Interp, a []Value, _ ssa.CallInstruction) Value {
		if in.locked > 0 {
			in.locked--
		}
		return nil
	}
	H["runtime.KeepAlive"] = nop
	H["regexp.MustCompile"] = func(in *Interp, a []Value, site ssa.CallInstruction) Value {
		pt := site.Value().Type().(*types.Pointer)
		return Ptr{in.newCell(pt.Elem())}
	}
	H["(syscall.Errno).Error"] = opaqueStr("errno")
	H["(*sync.Mutex).Lock"] = nop
	H["(*sync.Mutex).Unlock"] = nop
	H["(*sync.RWMutex).Lock"] = nop
	H["(*sync.RWMutex).Unlock"] = nop
	H["(*sync.RWMutex).RLock"] = nop
	H["(*sync.RWMutex).RUnlock"] = nop
	H["(*sync.Once).Do"] = func(in *Interp, a []Value, site ssa.CallInstruction) Value {
		// model: run once per Once cell
		p := a[0].(Ptr)
		done := p.C.Kids != nil && in.onceDone[p.C]
		if !done {
			if in.onceDone == nil {
				in.onceDone = map[*Cell]bool{}
			}
			in.onceDone[p.C] = true
			in.doCall(a[1], nil, site)
		}
		return nil
	}
}

var _ = fmt.Sprint
var _ = sym.Sat
