package gosym

import (
	"fmt"
	"go/types"
	"path/filepath"
	"sort"
	"strconv"
	"strings"

	"golang.org/x/tools/go/ssa"

	"verif/engine/sym"
)

var errNamed = types.NewNamed(types.NewTypeName(0, nil, "verifError", nil), types.NewStruct(nil, nil), nil)
var errType = types.NewPointer(errNamed)

// newError makes an opaque non-nil error value.
func (in *Interp) newError(site string, wrap Value) Value {
	in.errSeq++
	return Iface{T: errType, V: &ErrObj{Site: site, Wrap: wrap, ID: in.errSeq}}
}

func (in *Interp) stringSlice(v Value) ([]Value, bool) {
	s := v.(Slice)
	out := make([]Value, s.Len)
	for i := 0; i < s.Len; i++ {
		out[i] = in.load(s.Arr.Kids[s.Off+i])
	}
	return out, true
}

func (in *Interp) mkStringSlice(ss []string) Slice {
	arr := in.newArrayCell(types.Typ[types.String], len(ss))
	for i, s := range ss {
		arr.Kids[i].V = s
	}
	return Slice{Arr: arr, Len: len(ss), Cap: len(ss)}
}

func registerHost(in *Interp) {
	H := in.Host
	defer registerConc(in)
	defer registerHashLib(in)
	opaqueStr := func(tag string) HostFn {
		return func(in *Interp, a []Value, _ ssa.CallInstruction) Value { return "<" + tag + "@" + in.where() + ">" }
	}
	H["fmt.Sprintf"] = opaqueStr("fmt.Sprintf")
	H["fmt.Sprint"] = opaqueStr("fmt.Sprint")
	H["fmt.Sprintln"] = opaqueStr("fmt.Sprintln")
	H["fmt.Errorf"] = func(in *Interp, a []Value, _ ssa.CallInstruction) Value {
		var wrap Value
		if f, ok := a[0].(string); ok && strings.Contains(f, "%w") {
			va := a[1].(Slice)
			for i := 0; i < va.Len; i++ {
				if e, ok := in.load(va.Arr.Kids[va.Off+i]).(Iface); ok && e.T != nil {
					wrap = e
				}
			}
		}
		return in.newError("fmt.Errorf@"+in.where(), wrap)
	}
	H["errors.New"] = func(in *Interp, a []Value, _ ssa.CallInstruction) Value {
		return in.newError("errors.New@"+in.where(), nil)
	}
	// userMethod: the method of that name on the dynamic type of a (non-opaque) error value, if it is code
	// the engine interprets (an error type of the code under test with its own Unwrap / Is)
	userMethod := func(in *Interp, e Iface, name string) *Func {
		if _, opaque := e.V.(*ErrObj); opaque || e.T == nil {
			return nil
		}
		ms := in.Prog.MethodSets.MethodSet(e.T)
		for i := 0; i < ms.Len(); i++ {
			sel := ms.At(i)
			if sel.Obj().Name() != name {
				continue
			}
			fn := in.Prog.MethodValue(sel)
			if fn == nil || fn.Blocks == nil {
				return nil
			}
			root := fn
			if o := fn.Origin(); o != nil {
				root = o
			}
			if root.Pkg != nil && !in.InterpPkgs[root.Pkg.Pkg.Path()] {
				return nil
			}
			if fn.Pkg == nil && fn.Synthetic != "" {
				// a wrapper (promoted or pointer-receiver): allowed when what it wraps is interpreted
				if obj, ok := sel.Obj().(*types.Func); ok && obj.Pkg() != nil && !in.InterpPkgs[obj.Pkg().Path()] {
					return nil
				}
			}
			return &Func{Fn: fn}
		}
		return nil
	}
	unwrapOnce := func(in *Interp, e Iface, site ssa.CallInstruction) (Value, bool) {
		if eo, isObj := e.V.(*ErrObj); isObj {
			if eo.Wrap != nil {
				return eo.Wrap, true
			}
			return nil, false
		}
		if m := userMethod(in, e, "Unwrap"); m != nil && m.Fn.Signature.Results().Len() == 1 {
			if _, isErr := m.Fn.Signature.Results().At(0).Type().Underlying().(*types.Interface); isErr {
				return in.doCall(m, []Value{e.V}, site), true
			}
		}
		return nil, false
	}
	// errors.Is: identity / equality along the chain (%w of opaque errors, Unwrap and Is methods of error
	// types of the code under test); symbolic errno values give a symbolic answer
	var errIs func(in *Interp, err, target Value, depth int) *sym.Term
	errIs = func(in *Interp, err, target Value, depth int) *sym.Term {
		e, ok := err.(Iface)
		if !ok || e.T == nil || depth > 16 {
			return in.B.False()
		}
		t := target.(Iface)
		here := in.B.False()
		if t.T != nil {
			_, eObj := e.V.(*ErrObj)
			_, tObj := t.V.(*ErrObj)
			if eObj || tObj {
				if eObj && tObj {
					here = in.B.Bool(e.V == t.V)
				}
			} else if types.Identical(e.T, t.T) {
				here = in.eqValues(e.V, t.V)
			}
		}
		if m := userMethod(in, e, "Is"); m != nil && m.Fn.Signature.Params().Len() == 1 {
			if r, ok := in.doCall(m, []Value{e.V, target}, nil).(*sym.Term); ok {
				here = in.B.Or(here, r)
			}
		}
		if here.IsTrue() {
			return here
		}
		if next, ok := unwrapOnce(in, e, nil); ok {
			return in.B.Or(here, errIs(in, next, target, depth+1))
		}
		return here
	}
	H["errors.Is"] = func(in *Interp, a []Value, _ ssa.CallInstruction) Value { return errIs(in, a[0], a[1], 0) }
	// errors.As: the first error of the %w chain whose dynamic type fits the target
	H["errors.As"] = func(in *Interp, a []Value, _ ssa.CallInstruction) Value {
		tgt, ok := a[1].(Iface)
		if !ok || tgt.T == nil {
			in.goPanic("errors: target cannot be nil")
		}
		pt, ok := tgt.T.(*types.Pointer)
		p, ok2 := tgt.V.(Ptr)
		if !ok || !ok2 || p.C == nil {
			in.goPanic("errors: target must be a non-nil pointer")
		}
		want := pt.Elem()
		cur := a[0]
		for depth := 0; depth < 16; depth++ {
			e, ok := cur.(Iface)
			if !ok || e.T == nil {
				break
			}
			fits := types.AssignableTo(e.T, want)
			if it, isIface := want.Underlying().(*types.Interface); isIface && !fits {
				fits = types.Implements(e.T, it)
			}
			if _, opaque := e.V.(*ErrObj); opaque && !types.Identical(want, types.Universe.Lookup("error").Type()) {
				fits = false // an opaque error has no concrete type anybody could ask for
			}
			if fits {
				if _, isIface := want.Underlying().(*types.Interface); isIface {
					in.store(p.C, e)
				} else {
					in.store(p.C, e.V)
				}
				return in.B.True()
			}
			next, ok := unwrapOnce(in, e, nil)
			if !ok {
				break
			}
			cur = next
		}
		return in.B.False()
	}
	H["errors.Unwrap"] = func(in *Interp, a []Value, _ ssa.CallInstruction) Value {
		if e, ok := a[0].(Iface); ok && e.T != nil {
			if next, ok := unwrapOnce(in, e, nil); ok {
				return next
			}
		}
		return Iface{}
	}
	ioRes := func(in *Interp, a []Value, _ ssa.CallInstruction) Value {
		return Tuple{in.B.Const(in.WordBits, 0), Iface{}}
	}
	H["fmt.Fprintf"] = ioRes
	H["fmt.Fprintln"] = ioRes
	H["fmt.Fprint"] = ioRes
	H["fmt.Printf"] = ioRes
	H["fmt.Println"] = ioRes
	H["fmt.Print"] = ioRes
	nop := func(in *Interp, a []Value, _ ssa.CallInstruction) Value { return nil }
	H["log.Println"] = nop
	H["log.Printf"] = nop
	H["log.Print"] = nop
	H["strings.ToLower"] = func(in *Interp, a []Value, _ ssa.CallInstruction) Value { return in.lowerOf(a[0]) }
	H["strings.ToUpper"] = func(in *Interp, a []Value, _ ssa.CallInstruction) Value {
		switch x := a[0].(type) {
		case string:
			return strings.ToUpper(x)
		case *SymStr:
			if x.Bytes != nil {
				return in.asciiCase(x, false)
			}
		}
		in.unmodelled("strings.ToUpper on a symbolic string")
		return nil
	}
	H["strings.Join"] = func(in *Interp, a []Value, _ ssa.CallInstruction) Value {
		elems, _ := in.stringSlice(a[0])
		sep := str(a[1])
		var parts []string
		for _, e := range elems {
			s, ok := e.(string)
			if !ok {
				return &SymStr{Tag: "join"}
			}
			parts = append(parts, s)
		}
		return strings.Join(parts, sep)
	}
	H["strconv.Itoa"] = func(in *Interp, a []Value, _ ssa.CallInstruction) Value {
		n, ok := concreteInt(a[0])
		if !ok {
			return &SymStr{Tag: "itoa"}
		}
		return strconv.Itoa(int(n))
	}
	H["strconv.Atoi"] = func(in *Interp, a []Value, _ ssa.CallInstruction) Value {
		s, ok := a[0].(string)
		if !ok {
			in.unmodelled("strconv.Atoi on a symbolic string")
		}
		n, err := strconv.Atoi(s)
		if err != nil {
			return Tuple{in.B.Const(in.WordBits, 0), in.newError("strconv.Atoi", nil)}
		}
		return Tuple{in.B.Const(in.WordBits, uint64(int64(n))), Iface{}}
	}
	conc2 := func(kind string, f func(a, b string) bool) HostFn {
		return func(in *Interp, a []Value, _ ssa.CallInstruction) Value {
			x, ok1 := a[0].(string)
			y, ok2 := a[1].(string)
			if !ok1 || !ok2 {
				if isByteStr(a[0]) || isByteStr(a[1]) {
					xs, okx := in.byteTerms(a[0])
					ys, oky := in.byteTerms(a[1])
					if okx && oky {
						switch kind {
						case "prefix":
							if len(ys) > len(xs) {
								return in.B.False()
							}
							return in.byteStrEq(in.mkByteStr(xs[:len(ys)]), in.mkByteStr(ys))
						case "suffix":
							if len(ys) > len(xs) {
								return in.B.False()
							}
							return in.byteStrEq(in.mkByteStr(xs[len(xs)-len(ys):]), in.mkByteStr(ys))
						case "fold":
							return in.byteStrEq(in.asciiCase(in.mkByteStr(xs), true), in.asciiCase(in.mkByteStr(ys), true))
						case "contains":
							if len(ys) > len(xs) {
								return in.B.False()
							}
							var alts []*sym.Term
							for i := 0; i+len(ys) <= len(xs); i++ {
								alts = append(alts, in.byteStrEq(in.mkByteStr(xs[i:i+len(ys)]), in.mkByteStr(ys)))
							}
							return in.B.Or(alts...)
						}
					}
				}
				// content strings (SMT String terms built by concatenation / prefix / substr)
				isStr := func(v Value) bool {
					x, ok := v.(*SymStr)
					return ok && x.Str != nil && !x.Line && x.From == 0
				}
				if (isStr(a[0]) || ok1) && (isStr(a[1]) || ok2) && (isStr(a[0]) || isStr(a[1])) {
					switch kind {
					case "prefix":
						return in.B.Raw("str.prefixof", sym.BoolSort, in.strTerm(a[1]), in.strTerm(a[0]))
					case "suffix":
						return in.B.Raw("str.suffixof", sym.BoolSort, in.strTerm(a[1]), in.strTerm(a[0]))
					case "contains":
						return in.B.Raw("str.contains", sym.BoolSort, in.strTerm(a[0]), in.strTerm(a[1]))
					}
				}
				if l, isLine := a[0].(*SymStr); isLine && l.Line && ok2 {
					switch kind {
					case "contains":
						return in.lineContains(l, y)
					case "prefix":
						return in.lineHasPrefix(l, y)
					case "suffix":
						return in.lineHasSuffix(l, y)
					}
				}
				in.unmodelled("string predicate on a symbolic string")
			}
			return in.B.Bool(f(x, y))
		}
	}
	H["strings.Contains"] = conc2("contains", strings.Contains)
	H["strings.HasPrefix"] = conc2("prefix", strings.HasPrefix)
	H["strings.HasSuffix"] = conc2("suffix", strings.HasSuffix)
	H["strings.EqualFold"] = conc2("fold", strings.EqualFold)
	H["strings.TrimPrefix"] = func(in *Interp, a []Value, _ ssa.CallInstruction) Value {
		c, ok := a[1].(string)
		if !ok {
			in.unmodelled("strings.TrimPrefix with a symbolic prefix")
		}
		if isByteStr(a[0]) {
			bs, _ := in.byteTerms(a[0])
			if len(c) <= len(bs) && in.branch(in.byteStrEq(in.mkByteStr(bs[:len(c)]), c)) {
				return in.mkByteStr(bs[len(c):])
			}
			return a[0]
		}
		switch x := a[0].(type) {
		case string:
			return strings.TrimPrefix(x, c)
		case *SymStr:
			if x.Line {
				if in.branch(in.lineHasPrefix(x, c)) {
					return &SymStr{Str: x.Str, From: x.From + len(c), Line: true}
				}
				return x
			}
		}
		in.unmodelled("strings.TrimPrefix on a symbolic string")
		return nil
	}
	H["path/filepath.Dir"] = func(in *Interp, a []Value, _ ssa.CallInstruction) Value { return filepath.Dir(str(a[0])) }
	H["path/filepath.Base"] = func(in *Interp, a []Value, _ ssa.CallInstruction) Value { return filepath.Base(str(a[0])) }
	// trimming a byte-vector string: the number of characters cut at either end depends on the
	// content, so the path forks on it (ASCII only, as everything about byte vectors)
	trimBytes := func(in *Interp, v Value, left, right bool, cut func(b *sym.Term) *sym.Term) Value {
		bs, _ := in.byteTerms(v)
		lo, hi := 0, len(bs)
		if left {
			for lo < hi && in.branch(cut(bs[lo])) {
				lo++
			}
		}
		if right {
			for hi > lo && in.branch(cut(bs[hi-1])) {
				hi--
			}
		}
		return in.mkByteStr(bs[lo:hi])
	}
	isSpaceB := func(in *Interp) func(b *sym.Term) *sym.Term {
		return func(b *sym.Term) *sym.Term {
			return in.B.Or(in.B.Eq(b, in.B.Const(8, ' ')), in.B.And(in.B.ULe(in.B.Const(8, 9), b), in.B.ULe(b, in.B.Const(8, 13))))
		}
	}
	inSet := func(in *Interp, set string) func(b *sym.Term) *sym.Term {
		return func(b *sym.Term) *sym.Term {
			var alts []*sym.Term
			for i := 0; i < len(set); i++ {
				alts = append(alts, in.B.Eq(b, in.B.Const(8, uint64(set[i]))))
			}
			return in.B.Or(alts...)
		}
	}
	H["strings.TrimSpace"] = func(in *Interp, a []Value, _ ssa.CallInstruction) Value {
		if s, ok := a[0].(string); ok {
			return strings.TrimSpace(s)
		}
		if isByteStr(a[0]) {
			return trimBytes(in, a[0], true, true, isSpaceB(in))
		}
		return &SymStr{Tag: "trimspace"}
	}
	for name, sides := range map[string][2]bool{"Trim": {true, true}, "TrimLeft": {true, false}, "TrimRight": {false, true}} {
		name, sides := name, sides
		H["strings."+name] = func(in *Interp, a []Value, site ssa.CallInstruction) Value {
			set, ok := a[1].(string)
			if isByteStr(a[0]) && ok {
				for i := 0; i < len(set); i++ {
					if set[i] >= 0x80 {
						in.unmodelled("strings." + name + " with a non-ASCII cutset on a byte-vector string")
					}
				}
				return trimBytes(in, a[0], sides[0], sides[1], inSet(in, set))
			}
			if v, ok := in.callThrough("strings."+name, nil, a); ok {
				return v
			}
			in.unmodelled("strings." + name + " on a symbolic string")
			return nil
		}
	}
	H["strings.TrimSuffix"] = func(in *Interp, a []Value, site ssa.CallInstruction) Value {
		suf, ok := a[1].(string)
		if isByteStr(a[0]) && ok {
			bs, _ := in.byteTerms(a[0])
			if len(suf) <= len(bs) && in.branch(in.byteStrEq(in.mkByteStr(bs[len(bs)-len(suf):]), suf)) {
				return in.mkByteStr(bs[:len(bs)-len(suf)])
			}
			return a[0]
		}
		if v, ok := in.callThrough("strings.TrimSuffix", nil, a); ok {
			return v
		}
		in.unmodelled("strings.TrimSuffix on a symbolic string")
		return nil
	}
	H["strings.Fields"] = func(in *Interp, a []Value, _ ssa.CallInstruction) Value {
		s, ok := a[0].(string)
		if !ok {
			if l, isLine := a[0].(*SymStr); isLine && l.Line {
				return in.lineFields(l)
			}
			in.unmodelled("strings.Fields on a symbolic string")
		}
		return in.mkStringSlice(strings.Fields(s))
	}
	H["sort.Strings"] = func(in *Interp, a []Value, _ ssa.CallInstruction) Value {
		s := a[0].(Slice)
		var ss []string
		symbolic := false
		for i := 0; i < s.Len; i++ {
			x, ok := in.load(s.Arr.Kids[s.Off+i]).(string)
			if !ok {
				symbolic = true
				break
			}
			ss = append(ss, x)
		}
		in.lastSorted = &sortedRec{s: s}
		if symbolic {
			// equality atoms carry no order: the call is summarised as "some permutation, in place";
			// the harness checks that what is emitted is the slice that was sorted last (vWasSorted)
			// equality atoms have a rank (rank.go): the result is n fresh atoms, constrained to be the
			// sorted permutation of the elements (no forking); other symbolic strings keep the old summary
			var elems []*sym.Term
			atoms := s.Len <= 24 && in.Params["ranksort"] != nil
			for i := 0; i < s.Len && atoms; i++ {
				switch x := in.load(s.Arr.Kids[s.Off+i]).(type) {
				case string:
					elems = append(elems, in.atomTerm(x))
				case *SymStr:
					if x.Atom == nil {
						atoms = false
					} else {
						elems = append(elems, x.Atom)
					}
				default:
					atoms = false
				}
			}
			if atoms && s.Len > 0 {
				in.sortSeq++
				res := make([]*sym.Term, s.Len)
				for i := range res {
					n := fmt.Sprintf("sorted#%d.%d", in.sortSeq, i)
					res[i] = in.B.Var(n, sym.BVSort(32))
					in.atomVars[n] = true
				}
				count := func(xs []*sym.Term, e *sym.Term) *sym.Term {
					acc := in.B.Const(8, 0)
					for _, x := range xs {
						acc = in.B.Add(acc, in.B.Ite(in.B.Eq(x, e), in.B.Const(8, 1), in.B.Const(8, 0)))
					}
					return acc
				}
				var ax []*sym.Term
				for j := range res {
					var any []*sym.Term
					for _, e := range elems {
						any = append(any, in.B.Eq(res[j], e))
					}
					ax = append(ax, in.B.Or(any...))
				}
				for _, e := range elems {
					ax = append(ax, in.B.Eq(count(elems, e), count(res, e)))
				}
				for j := 0; j+1 < len(res); j++ {
					ax = append(ax, in.rankLess(in.rankOf(res[j]), in.rankOf(res[j+1]), true))
				}
				for _, e := range elems {
					in.rankOf(e)
				}
				in.addPC(in.B.And(ax...))
				for j := range res {
					in.store(s.Arr.Kids[s.Off+j], &SymStr{Atom: res[j]})
				}
			}
			for i := 0; i < s.Len; i++ {
				in.lastSorted.vals = append(in.lastSorted.vals, in.load(s.Arr.Kids[s.Off+i]))
			}
			return nil
		}
		orig := append([]string(nil), ss...)
		sort.Strings(ss)
		for i, x := range ss {
			if orig[i] != x { // a sorted slice is not written to
				in.store(s.Arr.Kids[s.Off+i], x)
			}
		}
		for i := 0; i < s.Len; i++ {
			in.lastSorted.vals = append(in.lastSorted.vals, in.load(s.Arr.Kids[s.Off+i]))
		}
		return nil
	}
	// sort.Slice / SliceStable / Sort / Stable / Ints: insertion sort over the real
	// less (and Swap) functions - exactly what package sort runs for up to 12
	// elements; longer inputs get the same stable order (ties of an unstable
	// sort may then replay differently, which ends as a mismatch, not a verdict).
	// A symbolic comparison forks the path.
	insertion := func(in *Interp, n int, less func(i, j int) bool, swap func(i, j int)) {
		if n > 64 {
			in.unmodelled("sort of more than 64 elements")
		}
		for i := 1; i < n; i++ {
			for j := i; j > 0 && less(j, j-1); j-- {
				swap(j, j-1)
			}
		}
	}
	idx := func(in *Interp, i int) Value { return in.B.Const(in.WordBits, uint64(i)) }
	sortSlice := func(in *Interp, a []Value, site ssa.CallInstruction) Value {
		ifc, ok := a[0].(Iface)
		if !ok || ifc.T == nil {
			in.goPanic("sort.Slice of nil")
		}
		s, ok := ifc.V.(Slice)
		if !ok {
			in.unmodelled("sort.Slice of a non-slice")
		}
		if s.Len < 0 || s.Arr == nil && s.Len > 0 {
			in.unmodelled("sort.Slice of an opaque slice")
		}
		insertion(in, s.Len, func(i, j int) bool {
			r := in.doCall(a[1], []Value{idx(in, i), idx(in, j)}, site)
			return in.branch(r.(*sym.Term))
		}, func(i, j int) {
			x, y := in.load(s.Arr.Kids[s.Off+i]), in.load(s.Arr.Kids[s.Off+j])
			in.store(s.Arr.Kids[s.Off+i], y)
			in.store(s.Arr.Kids[s.Off+j], x)
		})
		return nil
	}
	H["sort.Slice"] = sortSlice
	H["sort.SliceStable"] = sortSlice
	sortIface := func(in *Interp, a []Value, site ssa.CallInstruction) Value {
		recv, ok := a[0].(Iface)
		if !ok || recv.T == nil {
			in.goPanic("sort.Sort of nil")
		}
		method := func(name string, args ...Value) Value {
			ms := in.Prog.MethodSets.MethodSet(recv.T)
			for i := 0; i < ms.Len(); i++ {
				if sel := ms.At(i); sel.Obj().Name() == name {
					return in.doCall(&Func{Fn: in.Prog.MethodValue(sel)}, append([]Value{recv.V}, args...), site)
				}
			}
			in.unmodelled("sort.Interface without " + name)
			return nil
		}
		n := in.cint(method("Len"), "sort.Interface.Len")
		insertion(in, n, func(i, j int) bool {
			return in.branch(method("Less", idx(in, i), idx(in, j)).(*sym.Term))
		}, func(i, j int) { method("Swap", idx(in, i), idx(in, j)) })
		return nil
	}
	H["sort.Sort"] = sortIface
	H["sort.Stable"] = sortIface
	H["sort.Ints"] = func(in *Interp, a []Value, site ssa.CallInstruction) Value {
		s := a[0].(Slice)
		if s.Len < 0 {
			in.unmodelled("sort.Ints of an opaque slice")
		}
		insertion(in, s.Len, func(i, j int) bool {
			x, y := in.load(s.Arr.Kids[s.Off+i]).(*sym.Term), in.load(s.Arr.Kids[s.Off+j]).(*sym.Term)
			return in.branch(in.B.SLt(x, y))
		}, func(i, j int) {
			x, y := in.load(s.Arr.Kids[s.Off+i]), in.load(s.Arr.Kids[s.Off+j])
			in.store(s.Arr.Kids[s.Off+i], y)
			in.store(s.Arr.Kids[s.Off+j], x)
		})
		return nil
	}
	H["text/template.New"] = func(in *Interp, a []Value, site ssa.CallInstruction) Value {
		pt := site.Value().Type().(*types.Pointer)
		return Ptr{in.newCell(pt.Elem())}
	}
	H["(*text/template.Template).Parse"] = func(in *Interp, a []Value, site ssa.CallInstruction) Value {
		return Tuple{a[0], Iface{}}
	}
	H["text/template.Must"] = func(in *Interp, a []Value, site ssa.CallInstruction) Value { return a[0] }
	H["runtime.LockOSThread"] = func(in *Interp, a []Value, _ ssa.CallInstruction) Value {
		in.locked++
		return nil
	}
	H["runtime.UnlockOSThread"] = func(in *Interp, a []Value, _ ssa.CallInstruction) Value {
		if in.locked > 0 {
			in.locked--
		}
		return nil
	}
	H["runtime.KeepAlive"] = nop
	H["time.Sleep"] = nop // waiting changes nothing the stubs do not already leave open (kernel answers are arbitrary per call)
	// typed atomics (atomic.Uint32, atomic.Bool, ...): the field named v of the receiver
	vfield := func(in *Interp, recv Value) *Cell {
		p, ok := recv.(Ptr)
		if !ok || p.C == nil {
			in.goPanic("nil pointer dereference")
		}
		st, ok := under(p.C.T).(*types.Struct)
		if !ok || p.C.Kids == nil {
			in.unmodelled("typed atomic of an unexpected layout")
		}
		for i := 0; i < st.NumFields(); i++ {
			if st.Field(i).Name() == "v" {
				return p.C.Kids[i]
			}
		}
		in.unmodelled("typed atomic without field v")
		return nil
	}
	for _, ty := range []string{"Int32", "Uint32", "Int64", "Uint64", "Uintptr"} {
		pre := "(*sync/atomic." + ty + ")."
		H[pre+"Load"] = func(in *Interp, a []Value, _ ssa.CallInstruction) Value { return in.load(vfield(in, a[0])) }
		H[pre+"Store"] = func(in *Interp, a []Value, _ ssa.CallInstruction) Value { in.store(vfield(in, a[0]), a[1]); return nil }
		H[pre+"Swap"] = func(in *Interp, a []Value, _ ssa.CallInstruction) Value {
			c := vfield(in, a[0])
			old := in.load(c)
			in.store(c, a[1])
			return old
		}
		H[pre+"Add"] = func(in *Interp, a []Value, _ ssa.CallInstruction) Value {
			c := vfield(in, a[0])
			n := in.B.Add(in.load(c).(*sym.Term), a[1].(*sym.Term))
			in.store(c, n)
			return n
		}
		H[pre+"CompareAndSwap"] = func(in *Interp, a []Value, _ ssa.CallInstruction) Value {
			c := vfield(in, a[0])
			if in.branch(in.B.Eq(in.load(c).(*sym.Term), a[1].(*sym.Term))) {
				in.store(c, a[2])
				return in.B.True()
			}
			return in.B.False()
		}
	}
	// atomic.Bool keeps a uint32
	b32 := func(in *Interp, b Value) *sym.Term {
		return in.B.Ite(b.(*sym.Term), in.B.Const(32, 1), in.B.Const(32, 0))
	}
	isSet := func(in *Interp, v Value) *sym.Term { return in.B.Not(in.B.Eq(v.(*sym.Term), in.B.Const(32, 0))) }
	H["(*sync/atomic.Bool).Load"] = func(in *Interp, a []Value, _ ssa.CallInstruction) Value { return isSet(in, in.load(vfield(in, a[0]))) }
	H["(*sync/atomic.Bool).Store"] = func(in *Interp, a []Value, _ ssa.CallInstruction) Value {
		in.store(vfield(in, a[0]), b32(in, a[1]))
		return nil
	}
	H["(*sync/atomic.Bool).Swap"] = func(in *Interp, a []Value, _ ssa.CallInstruction) Value {
		c := vfield(in, a[0])
		old := isSet(in, in.load(c))
		in.store(c, b32(in, a[1]))
		return old
	}
	H["(*sync/atomic.Bool).CompareAndSwap"] = func(in *Interp, a []Value, _ ssa.CallInstruction) Value {
		c := vfield(in, a[0])
		if in.branch(in.B.Eq(isSet(in, in.load(c)), a[1].(*sym.Term))) {
			in.store(c, b32(in, a[2]))
			return in.B.True()
		}
		return in.B.False()
	}
	// sync/atomic: the engine runs one goroutine at a time, so an atomic access is the plain access
	// (interleavings of other goroutines are outside every claim that reaches these)
	for _, ty := range []string{"Int32", "Uint32", "Int64", "Uint64", "Uintptr", "Pointer"} {
		H["sync/atomic.Load"+ty] = func(in *Interp, a []Value, _ ssa.CallInstruction) Value { return in.load(a[0].(Ptr).C) }
		H["sync/atomic.Store"+ty] = func(in *Interp, a []Value, _ ssa.CallInstruction) Value {
			in.store(a[0].(Ptr).C, a[1])
			return nil
		}
		H["sync/atomic.Swap"+ty] = func(in *Interp, a []Value, _ ssa.CallInstruction) Value {
			old := in.load(a[0].(Ptr).C)
			in.store(a[0].(Ptr).C, a[1])
			return old
		}
		if ty != "Pointer" {
			H["sync/atomic.Add"+ty] = func(in *Interp, a []Value, _ ssa.CallInstruction) Value {
				n := in.B.Add(in.load(a[0].(Ptr).C).(*sym.Term), a[1].(*sym.Term))
				in.store(a[0].(Ptr).C, n)
				return n
			}
			H["sync/atomic.CompareAndSwap"+ty] = func(in *Interp, a []Value, _ ssa.CallInstruction) Value {
				c := a[0].(Ptr).C
				if in.branch(in.B.Eq(in.load(c).(*sym.Term), a[1].(*sym.Term))) {
					in.store(c, a[2])
					return in.B.True()
				}
				return in.B.False()
			}
		}
	}
	// how a child process ended: the exit code stored by vProcState (nil state: -1, as in package os)
	procCode := func(in *Interp, v Value) *sym.Term {
		p, ok := v.(Ptr)
		if !ok {
			in.unmodelled("ProcessState receiver")
		}
		if p.C == nil {
			return in.B.Const(in.WordBits, ^uint64(0))
		}
		cv, ok := in.procCodes[p.C]
		if !ok {
			in.unmodelled("os.ProcessState not produced by vProcState")
		}
		return cv.(*sym.Term)
	}
	H["(*os.ProcessState).ExitCode"] = func(in *Interp, a []Value, _ ssa.CallInstruction) Value { return procCode(in, a[0]) }
	H["(*os.ProcessState).Success"] = func(in *Interp, a []Value, _ ssa.CallInstruction) Value {
		return in.B.Eq(procCode(in, a[0]), in.B.Const(in.WordBits, 0))
	}
	H["(*os.ProcessState).Exited"] = func(in *Interp, a []Value, _ ssa.CallInstruction) Value {
		return in.B.SLe(in.B.Const(in.WordBits, 0), procCode(in, a[0]))
	}
	H["(*os.ProcessState).String"] = opaqueStr("process state")
	for _, fn := range []string{"HasPrefix", "HasSuffix", "Contains", "Equal"} {
		fn := fn
		H["bytes."+fn] = func(in *Interp, a []Value, site ssa.CallInstruction) Value {
			toStr := func(v Value) Value {
				sl := v.(Slice)
				if ss := in.taggedString(sl); ss != nil {
					return ss
				}
				if sl.Len < 0 {
					in.unmodelled("bytes." + fn + " on an opaque buffer")
				}
				bs := make([]*sym.Term, 0, sl.Len)
				for i := 0; i < sl.Len; i++ {
					bs = append(bs, in.load(sl.Arr.Kids[sl.Off+i]).(*sym.Term))
				}
				return in.mkByteStr(bs)
			}
			x, y := toStr(a[0]), toStr(a[1])
			if fn == "Equal" {
				return in.eqValues(x, y)
			}
			return in.Host["strings."+fn](in, []Value{x, y}, site)
		}
	}
	H["bytes.TrimSpace"] = func(in *Interp, a []Value, _ ssa.CallInstruction) Value { return a[0] }
	H["(*os/exec.ExitError).Error"] = opaqueStr("exit error")
	H["regexp.MustCompile"] = func(in *Interp, a []Value, site ssa.CallInstruction) Value {
		pt := site.Value().Type().(*types.Pointer)
		return Ptr{in.newCell(pt.Elem())}
	}
	H["(syscall.Errno).Error"] = opaqueStr("errno")
	H["(*sync.Mutex).Lock"] = nop
	H["(*sync.Mutex).Unlock"] = nop
	H["(*sync.RWMutex).Lock"] = nop
	H["(*sync.RWMutex).Unlock"] = nop
	H["(*sync.RWMutex).RLock"] = nop
	H["(*sync.RWMutex).RUnlock"] = nop
	H["(*sync.Once).Do"] = func(in *Interp, a []Value, site ssa.CallInstruction) Value {
		// model: run once per Once cell
		p := a[0].(Ptr)
		done := p.C.Kids != nil && in.onceDone[p.C]
		if !done {
			if in.onceDone == nil {
				in.onceDone = map[*Cell]bool{}
			}
			in.onceDone[p.C] = true
			in.doCall(a[1], nil, site)
		}
		return nil
	}
}

var _ = fmt.Sprint
var _ = sym.Sat
