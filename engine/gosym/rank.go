package gosym

import (
	"fmt"
	"go/token"
	"strings"

	"verif/engine/sym"
)

// Order of equality atoms. An atom has no characters, so the lexicographic order of strings is
// modelled by a RANK: four 64-bit words (the first 32 bytes of the string, big-endian, zero padded),
// compared lexicographically. For an interned string the words are constants; for a symbolic atom
// they are uninterpreted functions of its code, tied to the codes by injectivity (two atoms with the
// same rank are the same atom). A model is decoded into the string the rank spells.

func rankWords(s string) [4]uint64 {
	var w [4]uint64
	for i := 0; i < 32 && i < len(s); i++ {
		w[i/8] |= uint64(s[i]) << uint(56-8*(i%8))
	}
	return w
}

func (in *Interp) addRankFact(s string) {
	if in.rankFacts == nil {
		in.rankFacts = map[string]bool{}
	}
	if in.rankFacts[s] {
		return
	}
	in.rankFacts[s] = true
	key := s
	if len(key) > 32 {
		key = key[:32]
	}
	for o := range in.rankFacts {
		if o != s && len(o) >= 32 && len(s) >= 32 && o[:32] == key {
			in.rankTie = true
		}
	}
	if strings.ContainsRune(s, 0) {
		in.rankTie = true
	}
	c := in.B.Const(32, in.atomCode(s))
	w := rankWords(s)
	var same []*sym.Term
	for i := 0; i < 4; i++ {
		in.lowerAxioms = append(in.lowerAxioms, in.B.Eq(in.B.UF(fmt.Sprintf("rank%d", i), sym.BVSort(64), c), in.B.Const(64, w[i])))
	}
	_ = same
	for _, t := range in.rankApps {
		in.rankInjConst(t, s)
	}
}

func (in *Interp) rankInjConst(t *sym.Term, s string) {
	w := rankWords(s)
	var eq []*sym.Term
	for i := 0; i < 4; i++ {
		eq = append(eq, in.B.Eq(in.B.UF(fmt.Sprintf("rank%d", i), sym.BVSort(64), t), in.B.Const(64, w[i])))
	}
	in.lowerAxioms = append(in.lowerAxioms, in.B.Implies(in.B.And(eq...), in.B.Eq(t, in.B.Const(32, in.atomCode(s)))))
}

// rankOf returns the four rank words of an atom term.
func (in *Interp) rankOf(t *sym.Term) [4]*sym.Term {
	if !in.rankUsed {
		in.rankUsed = true
		for _, s := range append([]string(nil), in.atomNames...) {
			in.addRankFact(s)
		}
	}
	if in.rankTie {
		in.unmodelled("string order among strings that agree in their first 32 bytes (or contain NUL)")
	}
	var r [4]*sym.Term
	if t.IsConst() {
		s, _ := in.AtomString(t.C)
		w := rankWords(s)
		for i := range r {
			r[i] = in.B.Const(64, w[i])
		}
		return r
	}
	for i := range r {
		r[i] = in.B.UF(fmt.Sprintf("rank%d", i), sym.BVSort(64), t)
	}
	for _, u := range in.rankApps {
		if u == t {
			return r
		}
	}
	// first time: injectivity against the other symbolic atoms and the interned strings
	for _, u := range in.rankApps {
		var eq []*sym.Term
		for i := 0; i < 4; i++ {
			eq = append(eq, in.B.Eq(r[i], in.B.UF(fmt.Sprintf("rank%d", i), sym.BVSort(64), u)))
		}
		in.lowerAxioms = append(in.lowerAxioms, in.B.Implies(in.B.And(eq...), in.B.Eq(t, u)))
	}
	in.rankApps = append(in.rankApps, t)
	for s := range in.rankFacts {
		in.rankInjConst(t, s)
	}
	// no NUL inside the spelled string: a zero byte is followed by zero bytes only (so the rank decodes to a string)
	var bytes []*sym.Term
	for i := 0; i < 4; i++ {
		for j := 7; j >= 0; j-- {
			bytes = append(bytes, in.B.Extract(8*j+7, 8*j, r[i]))
		}
	}
	z := in.B.Const(8, 0)
	for i := 0; i+1 < len(bytes); i++ {
		in.lowerAxioms = append(in.lowerAxioms, in.B.Implies(in.B.Eq(bytes[i], z), in.B.Eq(bytes[i+1], z)))
	}
	for i := range bytes {
		// printable ASCII or padding
		in.lowerAxioms = append(in.lowerAxioms, in.B.Or(in.B.Eq(bytes[i], z), in.B.And(in.B.ULe(in.B.Const(8, 0x21), bytes[i]), in.B.ULe(bytes[i], in.B.Const(8, 0x7e)))))
	}
	if t.Op == "var" {
		for i := 0; i < 4; i++ {
			rv := in.B.Var(fmt.Sprintf("|rank%d:%s|", i, strings.Trim(t.Str, "|")), sym.BVSort(64))
			in.lowerAxioms = append(in.lowerAxioms, in.B.Eq(rv, r[i]))
		}
	}
	return r
}

func (in *Interp) rankLess(a, b [4]*sym.Term, orEqual bool) *sym.Term {
	acc := in.B.Bool(orEqual)
	for i := 3; i >= 0; i-- {
		acc = in.B.Or(in.B.ULt(a[i], b[i]), in.B.And(in.B.Eq(a[i], b[i]), acc))
	}
	return acc
}

// atomOrder decides a string ordering between two atom-valued strings.
func (in *Interp) atomOrder(op token.Token, a, b Value) *sym.Term {
	x, y := in.rankOf(in.atomTerm(a)), in.rankOf(in.atomTerm(b))
	switch op {
	case token.LSS:
		return in.rankLess(x, y, false)
	case token.LEQ:
		return in.rankLess(x, y, true)
	case token.GTR:
		return in.rankLess(y, x, false)
	}
	return in.rankLess(y, x, true)
}

// decodeRank spells the string a model's rank words stand for.
func decodeRank(w [4]uint64) string {
	var b []byte
	for i := 0; i < 4; i++ {
		for j := 7; j >= 0; j-- {
			c := byte(w[i] >> uint(8*j))
			if c == 0 {
				return string(b)
			}
			b = append(b, c)
		}
	}
	return string(b)
}
