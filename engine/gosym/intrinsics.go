package gosym

import (
	"fmt"
	"go/types"
	"strconv"
	"strings"

	"golang.org/x/tools/go/ssa"

	"verif/engine/sym"
)

func str(v Value) string {
	s, ok := v.(string)
	if !ok {
		panic(fmt.Sprintf("intrinsic: expected concrete string, got %T", v))
	}
	return s
}

func (in *Interp) nondetName(name string) string {
	k := in.nondetSeq[name]
	in.nondetSeq[name] = k + 1
	if k > 0 {
		name = name + "#" + strconv.Itoa(k)
	}
	return "|" + name + "|"
}

func (in *Interp) cint(v Value, what string) int {
	n, ok := concreteInt(v)
	if !ok {
		in.unmodelled(what + " must be concrete")
	}
	return int(n)
}

func registerIntrinsics(in *Interp) {
	I := in.Intrinsics
	nd := func(w int) IntrinsicFn {
		return func(in *Interp, a []Value, _ ssa.CallInstruction) Value {
			n := in.nondetName(str(a[0]))
			if v, ok := in.Concrete[strings.Trim(n, "|")]; ok {
				return in.B.Const(w, v)
			}
			return in.B.Var(n, sym.BVSort(w))
		}
	}
	I["vU8"] = nd(8)
	I["vU16"] = nd(16)
	I["vU32"] = nd(32)
	I["vU64"] = nd(64)
	I["vInt"] = func(in *Interp, a []Value, _ ssa.CallInstruction) Value {
		return in.B.Var(in.nondetName(str(a[0])), sym.BVSort(in.WordBits))
	}
	I["vBool"] = func(in *Interp, a []Value, _ ssa.CallInstruction) Value {
		return in.B.Var(in.nondetName(str(a[0])), sym.BoolSort)
	}
	// vProcState(code): a *os.ProcessState whose exit code is the given (symbolic) value
	I["vProcState"] = func(in *Interp, a []Value, site ssa.CallInstruction) Value {
		pt := site.Value().Type().(*types.Pointer)
		c := in.newCell(pt.Elem())
		if in.procCodes == nil {
			in.procCodes = map[*Cell]Value{}
		}
		in.procCodes[c] = a[0]
		return Ptr{c}
	}
	// vBytesStr(name, n): a string of n bytes, each an arbitrary 7-bit ASCII character
	I["vBytesStr"] = func(in *Interp, a []Value, _ ssa.CallInstruction) Value {
		name := str(a[0])
		n := in.cint(a[1], "vBytesStr length")
		bs := make([]*sym.Term, n)
		for i := range bs {
			v := in.B.Var(in.nondetName(name+"["+strconv.Itoa(i)+"]"), sym.BVSort(8))
			bs[i] = in.B.BAnd(v, in.B.Const(8, 0x7f))
		}
		return in.mkByteStr(bs)
	}
	I["vGoID"] = func(in *Interp, a []Value, _ ssa.CallInstruction) Value {
		return in.B.Const(in.WordBits, uint64(in.curG))
	}
	I["vEqStr"] = func(in *Interp, a []Value, _ ssa.CallInstruction) Value {
		n := in.nondetName(str(a[0]))
		if in.atomVars == nil {
			in.atomVars = map[string]bool{}
		}
		in.atomVars[strings.Trim(n, "|")] = true
		return &SymStr{Atom: in.B.Var(n, sym.BVSort(32))}
	}
	I["vLine"] = func(in *Interp, a []Value, _ ssa.CallInstruction) Value {
		return in.NewLine(in.nondetName(str(a[0])))
	}
	I["vIntSame"] = func(in *Interp, a []Value, _ ssa.CallInstruction) Value {
		return in.B.Var("|"+str(a[0])+"|", sym.BVSort(in.WordBits))
	}
	// ---- file-content strings (C17): SMT String terms built from ++, prefixof, substr, length classes
	I["vStr"] = func(in *Interp, a []Value, _ ssa.CallInstruction) Value {
		return &SymStr{Str: in.B.Var(in.nondetName(str(a[0])), sym.StringSort)}
	}
	I["vPrefixOf"] = func(in *Interp, a []Value, _ ssa.CallInstruction) Value {
		x, okx := a[0].(string)
		y, oky := a[1].(string)
		if okx && oky {
			return in.B.Bool(strings.HasPrefix(y, x))
		}
		return in.B.Raw("str.prefixof", sym.BoolSort, in.strTerm(a[0]), in.strTerm(a[1]))
	}
	I["vLenAtLeast"] = func(in *Interp, a []Value, _ ssa.CallInstruction) Value {
		n := in.cint(a[1], "length")
		if x, ok := a[0].(string); ok {
			return in.B.Bool(len(x) >= n)
		}
		anyc := in.B.Raw("re.allchar", sym.RegLanSort)
		re := in.B.Raw("re.++", sym.RegLanSort, in.B.RawP("re.loop", sym.RegLanSort, n, n, anyc), in.B.Raw("re.all", sym.RegLanSort))
		return in.B.InRe(in.strTerm(a[0]), re)
	}
	I["vLenIs"] = func(in *Interp, a []Value, _ ssa.CallInstruction) Value {
		n := in.cint(a[1], "length")
		if x, ok := a[0].(string); ok {
			return in.B.Bool(len(x) == n)
		}
		anyc := in.B.Raw("re.allchar", sym.RegLanSort)
		return in.B.InRe(in.strTerm(a[0]), in.B.RawP("re.loop", sym.RegLanSort, n, n, anyc))
	}
	// vIsHex(s, n): s is n lower-case hexadecimal digits
	I["vIsHex"] = func(in *Interp, a []Value, _ ssa.CallInstruction) Value {
		n := in.cint(a[1], "length")
		if x, ok := a[0].(string); ok {
			okk := len(x) == n
			for i := 0; i < len(x); i++ {
				if !((x[i] >= '0' && x[i] <= '9') || (x[i] >= 'a' && x[i] <= 'f')) {
					okk = false
				}
			}
			return in.B.Bool(okk)
		}
		hex := in.B.Raw("re.union", sym.RegLanSort, in.B.Raw("re.range", sym.RegLanSort, in.B.StrConst("0"), in.B.StrConst("9")), in.B.Raw("re.range", sym.RegLanSort, in.B.StrConst("a"), in.B.StrConst("f")))
		return in.B.InRe(in.strTerm(a[0]), in.B.RawP("re.loop", sym.RegLanSort, n, n, hex))
	}
	// vIsText(s): printable ASCII, tab and newline only
	I["vIsText"] = func(in *Interp, a []Value, _ ssa.CallInstruction) Value {
		if x, ok := a[0].(string); ok {
			okk := true
			for i := 0; i < len(x); i++ {
				if !((x[i] >= ' ' && x[i] <= '~') || x[i] == '\n' || x[i] == '\t') {
					okk = false
				}
			}
			return in.B.Bool(okk)
		}
		ch := in.B.Raw("re.union", sym.RegLanSort, in.B.Raw("re.range", sym.RegLanSort, in.B.StrConst(" "), in.B.StrConst("~")), in.B.Raw("str.to_re", sym.RegLanSort, in.B.StrConst("\n")), in.B.Raw("str.to_re", sym.RegLanSort, in.B.StrConst("\t")))
		return in.B.InRe(in.strTerm(a[0]), in.B.Raw("re.*", sym.RegLanSort, ch))
	}
	I["vFirst"] = func(in *Interp, a []Value, _ ssa.CallInstruction) Value {
		n := in.cint(a[1], "length")
		if x, ok := a[0].(string); ok {
			if len(x) < n {
				return x
			}
			return x[:n]
		}
		return &SymStr{Str: in.B.Raw("str.substr", sym.StringSort, in.strTerm(a[0]), in.B.RawP("int", sym.Sort{K: sym.SInt}, 0, 0), in.B.RawP("int", sym.Sort{K: sym.SInt}, n, 0))}
	}
	I["vLen"] = func(in *Interp, a []Value, _ ssa.CallInstruction) Value {
		if x, ok := a[0].(string); ok {
			return in.B.Const(in.WordBits, uint64(len(x)))
		}
		// the length of a symbolic string: an unconstrained non-negative count nobody should depend on
		in.lenSeq++
		return in.B.ZExt(in.WordBits, in.B.Var("|len#"+strconv.Itoa(in.lenSeq)+"|", sym.BVSort(in.WordBits-1)))
	}
	I["vTagBuf"] = func(in *Interp, a []Value, _ ssa.CallInstruction) Value {
		b := a[0].(Slice)
		if in.bufTags == nil {
			in.bufTags = map[*Cell]Value{}
		}
		in.bufTags[b.Arr] = a[1]
		return nil
	}
	I["vCrashEnabled"] = func(in *Interp, a []Value, _ ssa.CallInstruction) Value { return in.B.True() }
	// ---- abstract slices (C06-sym)
	I["vAbsInstrs"] = func(in *Interp, a []Value, site ssa.CallInstruction) Value {
		n := a[0].(*sym.Term)
		st := under(site.Value().Type()).(*types.Slice)
		return AbsSlice{&AbsArr{Len: n, Def: a[1], ElemT: st.Elem()}}
	}
	I["vAbsBytes"] = I["vAbsInstrs"]
	I["vAbsLive"] = func(in *Interp, a []Value, _ ssa.CallInstruction) Value {
		in.absOf(a[0]).Live = true
		return nil
	}
	I["vAbsCount"] = func(in *Interp, a []Value, _ ssa.CallInstruction) Value {
		return in.B.Const(in.WordBits, uint64(len(in.absOf(a[0]).Ents)))
	}
	I["vAbsIdx"] = func(in *Interp, a []Value, _ ssa.CallInstruction) Value {
		return in.absOf(a[0]).Ents[in.cint(a[1], "entry")].Idx
	}
	I["vAbsGuard"] = func(in *Interp, a []Value, _ ssa.CallInstruction) Value {
		return in.absOf(a[0]).Ents[in.cint(a[1], "entry")].Guard
	}
	I["vAbsAdded"] = func(in *Interp, a []Value, _ ssa.CallInstruction) Value {
		return in.B.Bool(in.absOf(a[0]).Ents[in.cint(a[1], "entry")].Added)
	}
	I["vAbsVal"] = func(in *Interp, a []Value, _ ssa.CallInstruction) Value {
		return in.absOf(a[0]).Ents[in.cint(a[1], "entry")].V
	}
	I["vRegister"] = func(in *Interp, a []Value, _ ssa.CallInstruction) Value { return nil }
	I["vParamInt"] = func(in *Interp, a []Value, _ ssa.CallInstruction) Value {
		v, ok := in.Params[str(a[0])]
		if !ok {
			return in.B.Const(in.WordBits, 0)
		}
		switch x := v.(type) {
		case int:
			return in.B.Const(in.WordBits, uint64(int64(x)))
		case float64:
			return in.B.Const(in.WordBits, uint64(int64(x)))
		}
		in.unmodelled("param " + str(a[0]) + " is not an int")
		return nil
	}
	I["vParamStr"] = func(in *Interp, a []Value, _ ssa.CallInstruction) Value {
		v, ok := in.Params[str(a[0])]
		if !ok {
			return ""
		}
		if s, ok := v.(string); ok {
			return s
		}
		in.unmodelled("param " + str(a[0]) + " is not a string")
		return nil
	}
	I["vHasParam"] = func(in *Interp, a []Value, _ ssa.CallInstruction) Value {
		_, ok := in.Params[str(a[0])]
		return in.B.Bool(ok)
	}
	I["vChoice"] = func(in *Interp, a []Value, _ ssa.CallInstruction) Value {
		n := in.cint(a[1], "vChoice n")
		if n <= 1 {
			return in.B.Const(in.WordBits, 0)
		}
		k := in.chooseN(make([]*sym.Term, n))
		// the same choice point may be passed several times on one path (two Close calls): number the visits
		name := str(a[0])
		seq := in.nondetSeq["choice:"+name]
		in.nondetSeq["choice:"+name] = seq + 1
		if seq > 0 {
			name += "#" + strconv.Itoa(seq)
		}
		in.pathNotes = append(in.pathNotes, fmt.Sprintf("%s=%d", name, k))
		return in.B.Const(in.WordBits, uint64(k))
	}
	I["vAssume"] = func(in *Interp, a []Value, _ ssa.CallInstruction) Value {
		c := a[0].(*sym.Term)
		if c.IsTrue() {
			return nil
		}
		if c.IsFalse() || !in.feasible(c) {
			panic(pathEnd{kind: "assume"})
		}
		if v, ok := in.modelSays(c); !ok || !v {
			in.model = nil
		}
		in.addPC(c)
		return nil
	}
	I["vAssert"] = func(in *Interp, a []Value, _ ssa.CallInstruction) Value {
		in.assert(a[0].(*sym.Term), str(a[1]))
		return nil
	}
	I["vCover"] = func(in *Interp, a []Value, _ ssa.CallInstruction) Value {
		tag := str(a[0])
		in.Covers[tag]++
		if in.WantCoverModels && in.CoverModel[tag] == nil {
			if in.model != nil {
				in.CoverModel[tag] = in.model
			} else {
				asserts := append(append([]*sym.Term(nil), in.pc...), in.sideFacts()...)
				if v, m := in.Pool.Feasible(asserts, true); v == sym.Sat {
					in.CoverModel[tag] = m
					in.model = m
				}
			}
		}
		return nil
	}
	// vReach(c, tag): cover point with a condition; counts only if pc && c is satisfiable.
	I["vReach"] = func(in *Interp, a []Value, _ ssa.CallInstruction) Value {
		c := a[0].(*sym.Term)
		tag := str(a[1])
		if in.Covers[tag] > 0 && !in.WantCoverModels {
			return nil
		}
		if c.IsFalse() {
			return nil
		}
		if v, ok := in.modelSays(c); ok && v {
			in.Covers[tag]++
			if in.CoverModel[tag] == nil {
				in.CoverModel[tag] = in.model
			}
			return nil
		}
		if in.Covers[tag] > 0 {
			return nil
		}
		asserts := append(append([]*sym.Term(nil), in.pc...), c)
		asserts = append(asserts, in.sideFacts()...)
		if v, m := in.Pool.Feasible(asserts, true); v == sym.Sat {
			in.Covers[tag]++
			if in.CoverModel[tag] == nil {
				in.CoverModel[tag] = m
			}
		}
		return nil
	}
	ite := func(in *Interp, a []Value, _ ssa.CallInstruction) Value {
		c := a[0].(*sym.Term)
		x, ok1 := a[1].(*sym.Term)
		y, ok2 := a[2].(*sym.Term)
		if ok1 && ok2 {
			return in.B.Ite(c, x, y)
		}
		if c.IsConst() {
			if c.C == 1 {
				return a[1]
			}
			return a[2]
		}
		in.unmodelled("vIte on non-scalar values with a symbolic condition")
		return nil
	}
	for _, n := range []string{"vIte8", "vIte16", "vIte32", "vIte64", "vIteInt", "vIteBool"} {
		I[n] = ite
	}
	I["vAnd"] = func(in *Interp, a []Value, _ ssa.CallInstruction) Value {
		return in.B.And(a[0].(*sym.Term), a[1].(*sym.Term))
	}
	I["vOr"] = func(in *Interp, a []Value, _ ssa.CallInstruction) Value {
		return in.B.Or(a[0].(*sym.Term), a[1].(*sym.Term))
	}
	I["vNot"] = func(in *Interp, a []Value, _ ssa.CallInstruction) Value {
		return in.B.Not(a[0].(*sym.Term))
	}
	I["vImplies"] = func(in *Interp, a []Value, _ ssa.CallInstruction) Value {
		return in.B.Implies(a[0].(*sym.Term), a[1].(*sym.Term))
	}
	I["vIsConcrete"] = func(in *Interp, a []Value, _ ssa.CallInstruction) Value {
		v := a[0]
		if i, ok := v.(Iface); ok {
			v = i.V
		}
		if _, ok := v.(string); ok {
			return in.B.True()
		}
		t, ok := v.(*sym.Term)
		return in.B.Bool(ok && t.IsConst())
	}
	I["vConstFalse"] = func(in *Interp, a []Value, _ ssa.CallInstruction) Value {
		return in.B.Bool(a[0].(*sym.Term).IsFalse())
	}
	I["vConcreteU32"] = func(in *Interp, a []Value, _ ssa.CallInstruction) Value {
		if !a[0].(*sym.Term).IsConst() {
			in.unmodelled("value required to be concrete is symbolic")
		}
		return a[0]
	}
	I["vKnown"] = func(in *Interp, a []Value, _ ssa.CallInstruction) Value {
		id := str(a[0])
		if in.OpenKnown[id] {
			c := a[1].(*sym.Term)
			if old, ok := in.known[id]; ok {
				c = in.B.Or(old, c)
			}
			in.known[id] = c
		}
		return nil
	}
	I["vMapOrder"] = func(in *Interp, a []Value, _ ssa.CallInstruction) Value {
		in.MapOrder = str(a[0])
		return nil
	}
	I["vMonitor"] = func(in *Interp, a []Value, _ ssa.CallInstruction) Value {
		in.monitorOn = a[0].(*sym.Term).IsTrue()
		return nil
	}
	I["vShareRoots"] = func(in *Interp, a []Value, _ ssa.CallInstruction) Value {
		in.shareTag++
		seen := map[*Cell]bool{}
		seenM := map[*MapObj]bool{}
		s := a[0].(Slice)
		for i := 0; i < s.Len; i++ {
			in.shareValue(in.load(s.Arr.Kids[s.Off+i]), in.shareTag, seen, seenM)
		}
		return nil
	}
	I["vSharedWrites"] = func(in *Interp, a []Value, _ ssa.CallInstruction) Value {
		return in.B.Const(in.WordBits, uint64(len(in.sharedWrites)))
	}
	I["vSharedWriteAt"] = func(in *Interp, a []Value, _ ssa.CallInstruction) Value {
		i := in.cint(a[0], "index")
		if i < 0 || i >= len(in.sharedWrites) {
			return ""
		}
		return in.sharedWrites[i]
	}
	I["vRun"] = func(in *Interp, a []Value, site ssa.CallInstruction) Value {
		f := a[0].(*Func)
		code := 0
		depth := len(in.stack)
		savedBudget := in.runBudget
		if in.runBudget == 0 {
			in.runBudget = in.steps + in.RunSteps
		}
		defer func() { in.runBudget = savedBudget }()
		func() {
			defer func() {
				if r := recover(); r != nil {
					pe, ok := r.(pathEnd)
					if !ok {
						panic(r)
					}
					switch pe.kind {
					case "panic":
						code = 1
						in.pathNotes = append(in.pathNotes, "panic: "+pe.msg)
						in.lastPanic = pe.msg
					case "exit":
						code = 2
					case "crash":
						code = 3
					case "nonterm":
						code = 4
						in.pathNotes = append(in.pathNotes, "no termination: "+pe.msg)
					default:
						panic(r)
					}
					in.stack = in.stack[:depth]
				}
			}()
			in.doCall(f, nil, site)
		}()
		return in.B.Const(in.WordBits, uint64(code))
	}
	I["vExitNow"] = func(in *Interp, a []Value, _ ssa.CallInstruction) Value {
		panic(pathEnd{kind: "exit"})
	}
	I["vCrashNow"] = func(in *Interp, a []Value, _ ssa.CallInstruction) Value {
		panic(pathEnd{kind: "crash"})
	}
	I["vLastPanic"] = func(in *Interp, a []Value, _ ssa.CallInstruction) Value {
		return in.lastPanic
	}
	I["vObs"] = func(in *Interp, a []Value, _ ssa.CallInstruction) Value {
		in.obs = append(in.obs, Obs{Name: str(a[0]), V: a[1]})
		return nil
	}
	I["vObsStr"] = I["vObs"]
	I["vObsBool"] = I["vObs"]
	I["vLower"] = func(in *Interp, a []Value, _ ssa.CallInstruction) Value {
		return in.lowerOf(a[0])
	}
	I["vTraceLen"] = func(in *Interp, a []Value, _ ssa.CallInstruction) Value {
		return in.B.Const(in.WordBits, uint64(len(in.trace)))
	}
	I["vTraceCallee"] = func(in *Interp, a []Value, _ ssa.CallInstruction) Value {
		i := in.cint(a[0], "index")
		n := in.trace[i].Callee
		if j := strings.LastIndex(n, "."); j >= 0 {
			n = n[j+1:]
		}
		return strings.TrimSuffix(n, ")")
	}
	I["vTraceArgInt"] = func(in *Interp, a []Value, _ ssa.CallInstruction) Value {
		i, j := in.cint(a[0], "index"), in.cint(a[1], "index")
		t, ok := in.trace[i].Args[j].(*sym.Term)
		if !ok {
			in.unmodelled("trace argument is not an integer")
		}
		return in.B.ZExt(in.WordBits, t)
	}
	I["vLockDepth"] = func(in *Interp, a []Value, _ ssa.CallInstruction) Value {
		return in.B.Const(in.WordBits, uint64(in.locked))
	}
	I["vConcurrently"] = func(in *Interp, a []Value, site ssa.CallInstruction) Value {
		in.doCall(a[0], nil, site)
		in.doCall(a[1], nil, site)
		return nil
	}
	I["vNativeRepeat"] = func(in *Interp, a []Value, _ ssa.CallInstruction) Value { return in.B.Const(in.WordBits, 1) }
	I["vRecordExtern"] = func(in *Interp, a []Value, _ ssa.CallInstruction) Value {
		in.recordExtern = a[0].(*sym.Term).IsTrue()
		return nil
	}
	I["vExternCalls"] = func(in *Interp, a []Value, _ ssa.CallInstruction) Value {
		return in.B.Const(in.WordBits, uint64(len(in.externCalls)))
	}
	I["vExternCallAt"] = func(in *Interp, a []Value, _ ssa.CallInstruction) Value {
		i := in.cint(a[0], "index")
		if i < 0 || i >= len(in.externCalls) {
			return ""
		}
		return in.externCalls[i]
	}
	I["vSetField0"] = func(in *Interp, a []Value, _ ssa.CallInstruction) Value {
		to := a[0].(Iface)
		p, ok := to.V.(Ptr)
		if !ok || p.C == nil || len(p.C.Kids) == 0 {
			in.unmodelled("vSetField0: target is not a pointer to a struct")
		}
		in.store(p.C.Kids[0], a[1].(Iface).V)
		return nil
	}
	I["vField0"] = func(in *Interp, a []Value, _ ssa.CallInstruction) Value {
		v := a[0].(Iface)
		st, ok := v.V.(*Struct)
		if !ok || len(st.F) == 0 {
			in.unmodelled("vField0: not a struct value")
		}
		ft := under(v.T).(*types.Struct).Field(0).Type()
		return Iface{T: ft, V: st.F[0]}
	}
	// vWasSorted(s): s is exactly the slice sort.Strings was last applied to and has not been written since.
	I["vWasSorted"] = func(in *Interp, a []Value, _ ssa.CallInstruction) Value {
		s := a[0].(Slice)
		r := in.lastSorted
		if r == nil {
			return in.B.Bool(s.Len <= 1)
		}
		if s.Len <= 1 && r.s.Len <= 1 {
			return in.B.True()
		}
		if r.s.Arr != s.Arr || r.s.Off != s.Off || r.s.Len != s.Len {
			return in.B.False()
		}
		same := in.B.True()
		for i := 0; i < s.Len; i++ {
			same = in.B.And(same, in.eqValues(in.load(s.Arr.Kids[s.Off+i]), r.vals[i]))
		}
		return same
	}
	I["vFailNative"] = func(in *Interp, a []Value, _ ssa.CallInstruction) Value { return nil }
	I["vSymbolic"] = func(in *Interp, a []Value, _ ssa.CallInstruction) Value { return in.B.True() }
}

// Obs is a named observation recorded by the harness.
type Obs struct {
	Name string
	V    Value
}

// assert checks cond under the path condition. Known-finding predicates that
// are active are handled as described in DESIGN.md section 5.
func (in *Interp) assert(cond *sym.Term, tag string) {
	in.Asserts[tag]++
	if cond.IsTrue() {
		in.Trivial[tag]++
		return
	}
	neg := in.B.Not(cond)
	base := append(append([]*sym.Term(nil), in.pc...), neg)
	base = append(base, in.sideFacts()...)
	// 1. a violation outside every active known-finding predicate
	var ids []string
	outside := append([]*sym.Term(nil), base...)
	for id, p := range in.known {
		ids = append(ids, id)
		outside = append(outside, in.B.Not(p))
	}
	v, m := in.Pool.Decide(outside, true)
	switch v {
	case sym.Sat:
		in.recordViolation(tag, m, "")
	case sym.Unknown:
		in.Inconclusive = append(in.Inconclusive, fmt.Sprintf("assert %s at %s: no solver decided", tag, in.where()))
	}
	// 2. per active predicate: a violation inside it
	for _, id := range ids {
		inside := append(append([]*sym.Term(nil), base...), in.known[id])
		v, m := in.Pool.Decide(inside, true)
		switch v {
		case sym.Sat:
			in.recordViolation(tag, m, id)
		case sym.Unknown:
			in.Inconclusive = append(in.Inconclusive, fmt.Sprintf("assert %s (known %s) at %s: no solver decided", tag, id, in.where()))
		}
	}
	// continue under the assertion; if it cannot hold at all on this path (a concrete failure), go on
	// without it so that the obligations of other properties further down are still evaluated
	if !in.feasible(cond) {
		return
	}
	if v, ok := in.modelSays(cond); !ok || !v {
		in.model = nil
	}
	in.addPC(cond)
}

func (in *Interp) recordViolation(tag string, m *sym.Model, known string) {
	in.Violations = append(in.Violations, Violation{Tag: tag, Model: m, Decisions: append([]int(nil), in.decisions[:in.decPos]...), Known: known, Where: in.where(),
		Obs: in.evalObs(m), Notes: append([]string(nil), in.pathNotes...)})
}

// evalObs evaluates the recorded observations under a model.
func (in *Interp) evalObs(m *sym.Model) map[string]string {
	out := map[string]string{}
	for _, o := range in.obs {
		switch x := o.V.(type) {
		case *sym.Term:
			if v, ok := sym.Eval(x, m.Vals); ok {
				out[o.Name] = fmt.Sprintf("0x%x", v)
			}
		case string:
			out[o.Name] = x
		case *SymStr:
			if x.Atom != nil {
				if v, ok := sym.Eval(x.Atom, m.Vals); ok {
					s, _ := in.AtomString(v)
					out[o.Name] = s
				}
			}
		}
	}
	return out
}
