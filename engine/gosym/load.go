package gosym

import (
	"fmt"
	"os"
	"path/filepath"
	"sort"
	"strings"

	"golang.org/x/tools/go/packages"
	"golang.org/x/tools/go/ssa"
	"golang.org/x/tools/go/ssa/ssautil"
)

// Loaded is a type-checked, SSA-built view of /repo with harness overlays.
type Loaded struct {
	Prog     *ssa.Program
	Pkgs     []*packages.Package
	SSA      []*ssa.Package
	ByPath   map[string]*ssa.Package
	TypeErrs []string
}

// Overlay maps harness sources into the repository tree: every file of
// harnessDir/<rel>/ is presented as repoDir/<rel>/<name>.
func Overlay(repoDir, harnessDir string) (map[string][]byte, error) {
	ov := map[string][]byte{}
	err := filepath.Walk(harnessDir, func(p string, info os.FileInfo, err error) error {
		if err != nil {
			return err
		}
		if info.IsDir() || !strings.HasSuffix(p, ".go") || strings.HasSuffix(p, "_test.go") {
			return nil
		}
		rel, _ := filepath.Rel(harnessDir, p)
		dir := filepath.Dir(rel)
		if dir == "root" {
			dir = "."
		} else {
			dir = strings.TrimPrefix(dir, "root/")
		}
		b, err := os.ReadFile(p)
		if err != nil {
			return err
		}
		ov[filepath.Join(repoDir, dir, filepath.Base(p))] = b
		return nil
	})
	return ov, err
}

// Load type-checks and builds SSA for the patterns under repoDir.
func Load(repoDir string, overlay map[string][]byte, goos, goarch string, patterns ...string) (*Loaded, error) {
	env := append(os.Environ(), "GOFLAGS=-mod=mod", "GOPROXY=off", "GOSUMDB=off", "GOTOOLCHAIN=local", "CGO_ENABLED=0")
	if goos != "" {
		env = append(env, "GOOS="+goos)
	}
	if goarch != "" {
		env = append(env, "GOARCH="+goarch)
	}
	cfg := &packages.Config{
		Mode:    packages.LoadAllSyntax,
		Dir:     repoDir,
		Env:     env,
		Overlay: overlay,
	}
	pkgs, err := packages.Load(cfg, patterns...)
	if err != nil {
		return nil, err
	}
	l := &Loaded{Pkgs: pkgs, ByPath: map[string]*ssa.Package{}}
	packages.Visit(pkgs, nil, func(p *packages.Package) {
		for _, e := range p.Errors {
			l.TypeErrs = append(l.TypeErrs, e.Error())
		}
	})
	if len(l.TypeErrs) > 0 {
		sort.Strings(l.TypeErrs)
		n := len(l.TypeErrs)
		if n > 8 {
			n = 8
		}
		return l, fmt.Errorf("type errors: %s", strings.Join(l.TypeErrs[:n], "; "))
	}
	prog, ssaPkgs := ssautil.AllPackages(pkgs, ssa.BareInits|ssa.InstantiateGenerics)
	prog.Build()
	l.Prog = prog
	l.SSA = ssaPkgs
	for _, p := range prog.AllPackages() {
		l.ByPath[p.Pkg.Path()] = p
	}
	return l, nil
}
