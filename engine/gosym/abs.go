package gosym

import (
	"fmt"
	"go/types"

	"verif/engine/sym"
)

// Abstract slices (C06-sym): a slice whose LENGTH and INDICES are symbolic.
// Only finitely many positions are known (entries); every other position holds
// the default element. Used to run the assembler over symbolic distances.
//
// An AbsArr is immutable in shape operations (slicing and appending build new
// arrays) and mutable through element stores, like a Go backing array. Entries
// carry a guard so that slicing/appending need not decide which entries
// survive.

type absEnt struct {
	Idx   *sym.Term // word-sized bit-vector
	Guard *sym.Term // entry exists iff Guard
	V     Value
	Added bool // stored after the array was handed to the code under test
}

type AbsArr struct {
	Len   *sym.Term
	Ents  []*absEnt
	Def   Value
	ElemT types.Type
	Live  bool // stores from now on are marked Added
}

type AbsSlice struct{ A *AbsArr }

func (in *Interp) absIndexAddr(a *AbsArr, idx *sym.Term, signed bool) Value {
	B := in.B
	inRange := B.ULt(idx, a.Len)
	if signed {
		inRange = B.And(B.SLe(B.Const(idx.S.W, 0), idx), B.SLt(idx, a.Len))
	}
	if !in.branch(inRange) {
		in.goPanic("index out of range on an abstract slice")
	}
	return Ptr{&Cell{T: a.ElemT, Abs: a, AbsIdx: idx}}
}

// absFind decides which entry idx denotes (forking), -1 = none.
func (in *Interp) absFind(a *AbsArr, idx *sym.Term) int {
	conds := make([]*sym.Term, len(a.Ents)+1)
	var hits []*sym.Term
	for i, e := range a.Ents {
		conds[i] = in.B.And(e.Guard, in.B.Eq(idx, e.Idx))
		hits = append(hits, conds[i])
	}
	conds[len(a.Ents)] = in.B.Not(in.B.Or(hits...))
	// later entries shadow earlier ones at the same index: make the conditions exclusive
	for i := range a.Ents {
		for j := i + 1; j < len(a.Ents); j++ {
			conds[i] = in.B.And(conds[i], in.B.Not(in.B.And(a.Ents[j].Guard, in.B.Eq(idx, a.Ents[j].Idx))))
		}
	}
	k := in.chooseN(conds)
	if k == len(a.Ents) {
		return -1
	}
	return k
}

func (in *Interp) absLoad(c *Cell) Value {
	k := in.absFind(c.Abs, c.AbsIdx)
	if k < 0 {
		return c.Abs.Def
	}
	return c.Abs.Ents[k].V
}

func (in *Interp) absStore(c *Cell, v Value) {
	a := c.Abs
	k := in.absFind(a, c.AbsIdx)
	if k >= 0 {
		// on this path the entry exists at exactly this index
		a.Ents[k].V = v
		a.Ents[k].Added = a.Live
		a.Ents[k].Guard = in.B.True()
		a.Ents[k].Idx = c.AbsIdx
		// entries it shadows at the same index are dead from now on
		for j, e := range a.Ents {
			if j != k {
				e.Guard = in.B.And(e.Guard, in.B.Not(in.B.Eq(e.Idx, c.AbsIdx)))
			}
		}
		return
	}
	a.Ents = append(a.Ents, &absEnt{Idx: c.AbsIdx, Guard: in.B.True(), V: v, Added: a.Live})
}

// absSlice: a[lo:hi] (nil bounds = open).
func (in *Interp) absSlice(a *AbsArr, lo, hi *sym.Term) Value {
	B := in.B
	w := a.Len.S.W
	if lo == nil {
		lo = B.Const(w, 0)
	}
	if hi == nil {
		hi = a.Len
	}
	ok := B.And(B.SLe(B.Const(w, 0), lo), B.And(B.SLe(lo, hi), B.SLe(hi, a.Len)))
	if !in.branch(ok) {
		in.goPanic("slice bounds out of range on an abstract slice")
	}
	n := &AbsArr{Len: B.Sub(hi, lo), Def: a.Def, ElemT: a.ElemT, Live: a.Live}
	for _, e := range a.Ents {
		n.add(in, &absEnt{Idx: B.Sub(e.Idx, lo), Guard: B.And(e.Guard, B.And(B.SLe(lo, e.Idx), B.SLt(e.Idx, hi))), V: e.V, Added: e.Added})
	}
	return AbsSlice{n}
}

// absAppend: append(a, b...).
func (in *Interp) absAppend(a, b *AbsArr) Value {
	B := in.B
	n := &AbsArr{Len: B.Add(a.Len, b.Len), Def: a.Def, ElemT: a.ElemT, Live: a.Live || b.Live}
	for _, e := range a.Ents {
		n.add(in, &absEnt{Idx: e.Idx, Guard: B.And(e.Guard, B.SLt(e.Idx, a.Len)), V: e.V, Added: e.Added})
	}
	for _, e := range b.Ents {
		n.add(in, &absEnt{Idx: B.Add(e.Idx, a.Len), Guard: B.And(e.Guard, B.SLt(e.Idx, b.Len)), V: e.V, Added: e.Added})
	}
	return AbsSlice{n}
}

func (in *Interp) absOf(v Value) *AbsArr {
	s, ok := v.(AbsSlice)
	if !ok || s.A == nil {
		in.unmodelled(fmt.Sprintf("abstract-slice intrinsic on %T", v))
	}
	return s.A
}

// add keeps an entry only if its guard is feasible under the path condition,
// and makes the guard true when the path condition implies it.
func (n *AbsArr) add(in *Interp, e *absEnt) {
	if e.Guard.IsFalse() || !in.feasible(e.Guard) {
		return
	}
	if !e.Guard.IsTrue() && !in.feasible(in.B.Not(e.Guard)) {
		e.Guard = in.B.True()
	}
	n.Ents = append(n.Ents, e)
}
