package gosym

import (
	"fmt"
	"go/types"

	"verif/engine/sym"
)

// Symbolic lines (DESIGN.md 3.5): an SMT String variable that is only ever
// constrained by memberships in regular languages over
// Sigma = printable ASCII + space + tab. A value derived by constant slicing
// is (variable, From).

func (in *Interp) reSigma() *sym.Term {
	B := in.B
	return B.Raw("re.union", sym.RegLanSort, B.Raw("re.range", sym.RegLanSort, B.StrConst(" "), B.StrConst("~")), B.Raw("str.to_re", sym.RegLanSort, B.StrConst("\t")))
}
func (in *Interp) reAll() *sym.Term { return in.B.Raw("re.*", sym.RegLanSort, in.reSigma()) }
func (in *Interp) reLit(s string) *sym.Term {
	return in.B.Raw("str.to_re", sym.RegLanSort, in.B.StrConst(s))
}
func (in *Interp) reCat(xs ...*sym.Term) *sym.Term {
	if len(xs) == 1 {
		return xs[0]
	}
	return in.B.Raw("re.++", sym.RegLanSort, xs...)
}
func (in *Interp) reUnion(xs ...*sym.Term) *sym.Term {
	if len(xs) == 1 {
		return xs[0]
	}
	return in.B.Raw("re.union", sym.RegLanSort, xs...)
}
func (in *Interp) reLoop(r *sym.Term, lo, hi int) *sym.Term {
	if lo == 0 && hi == 0 {
		return in.reLit("")
	}
	return in.B.RawP("re.loop", sym.RegLanSort, lo, hi, r)
}
func (in *Interp) reStar(r *sym.Term) *sym.Term { return in.B.Raw("re.*", sym.RegLanSort, r) }
func (in *Interp) rePlus(r *sym.Term) *sym.Term { return in.B.Raw("re.+", sym.RegLanSort, r) }
func (in *Interp) reWS() *sym.Term {
	return in.reUnion(in.reLit(" "), in.reLit("\t"))
}
func (in *Interp) reNW() *sym.Term {
	return in.B.Raw("re.range", sym.RegLanSort, in.B.StrConst("!"), in.B.StrConst("~"))
}

// NewLine makes a fresh symbolic line.
func (in *Interp) NewLine(name string) *SymStr {
	v := in.B.Var(name, sym.StringSort)
	in.lineVars = append(in.lineVars, v)
	// alphabet assumption
	in.lowerAxioms = append(in.lowerAxioms, in.B.InRe(v, in.reAll()))
	return &SymStr{Str: v, Line: true}
}

// from prefixes a language with Sigma{k}: a predicate on x[k:] becomes a
// predicate on x.
func (in *Interp) lineFrom(k int, r *sym.Term) *sym.Term {
	if k == 0 {
		return r
	}
	return in.reCat(in.reLoop(in.reSigma(), k, k), r)
}

// lineIn: x in R as a Bool term over the line variable.
func (in *Interp) lineIn(x *SymStr, r *sym.Term) *sym.Term {
	return in.B.InRe(x.Str, in.lineFrom(x.From, r))
}

func (in *Interp) lineContains(x *SymStr, c string) *sym.Term {
	return in.lineIn(x, in.reCat(in.reAll(), in.reLit(c), in.reAll()))
}
func (in *Interp) lineHasPrefix(x *SymStr, c string) *sym.Term {
	return in.lineIn(x, in.reCat(in.reLit(c), in.reAll()))
}
func (in *Interp) lineHasSuffix(x *SymStr, c string) *sym.Term {
	return in.lineIn(x, in.reCat(in.reAll(), in.reLit(c)))
}
func (in *Interp) lineEqConst(x *SymStr, c string) *sym.Term {
	return in.lineIn(x, in.reLit(c))
}

// lineLenLess: len(x) < k (for x = var[From:], given len(var) >= From).
func (in *Interp) lineLenLess(x *SymStr, k int) *sym.Term {
	if k <= 0 {
		return in.B.False()
	}
	return in.lineIn(x, in.reLoop(in.reSigma(), 0, k-1))
}

// lineSlice models x[lo:] (hi must be open): the bounds check is a forkable
// panic.
func (in *Interp) lineSlice(x *SymStr, lo, hi int) Value {
	if hi >= 0 {
		in.unmodelled("x[lo:hi] on a symbolic line")
	}
	if lo < 0 {
		lo = 0
	}
	if in.branch(in.lineLenLess(x, lo)) {
		in.goPanic(fmt.Sprintf("slice bounds out of range [%d:] on a line shorter than that", lo))
	}
	return &SymStr{Str: x.Str, From: x.From + lo, Line: true}
}

// lineFields models strings.Fields: the number of fields is 0, 1, 2 or >= 3
// (modelled as 4), decided by membership; the fields themselves are opaque.
func (in *Interp) lineFields(x *SymStr) Value {
	ws, nw := in.reWS(), in.reNW()
	f0 := in.reStar(ws)
	f1 := in.reCat(in.reStar(ws), in.rePlus(nw), in.reStar(ws))
	f2 := in.reCat(in.reStar(ws), in.rePlus(nw), in.rePlus(ws), in.rePlus(nw), in.reStar(ws))
	c0, c1, c2 := in.lineIn(x, f0), in.lineIn(x, f1), in.lineIn(x, f2)
	c3 := in.B.Not(in.B.Or(c0, c1, c2))
	k := in.chooseN([]*sym.Term{c0, c1, c2, c3})
	n := k
	if k == 3 {
		n = 4
	}
	arr := in.newArrayCell(types.Typ[types.String], n)
	for i := 0; i < n; i++ {
		arr.Kids[i].V = &SymStr{Tag: fmt.Sprintf("field%d", i)}
	}
	return Slice{Arr: arr, Len: n, Cap: n}
}
