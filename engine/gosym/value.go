// Package gosym is a symbolic interpreter for go/ssa. Control structure
// (lengths, indices, dynamic types, map shapes) is concrete; scalars are SMT
// terms. Branches on symbolic conditions fork by re-execution: a path is a
// list of decisions, and the harness is re-run from the start for every path.
package gosym

import (
	"fmt"
	"go/types"
	"sort"
	"strconv"

	"golang.org/x/tools/go/ssa"

	"verif/engine/sym"
)

// Value is one of:
//
//	*sym.Term            bool (Bool sort) or any integer (BV sort)
//	string               concrete string
//	*SymStr              symbolic string (atom or SMT string term)
//	*Struct, *Array      aggregate values (immutable once built)
//	Ptr                  pointer to a Cell (also unsafe.Pointer)
//	PtrInt               uintptr that came from a pointer
//	Slice, Map, Iface, *Func, Tuple, Opaque, *MapIter, *StrIter
type Value interface{}

type SymStr struct {
	Atom *sym.Term // BV32 atom code, or nil
	Str  *sym.Term // SMT String term, or nil
	From int       // byte offset into Str (value is Str[From:])
	Tag  string    // for opaque strings: a label
	Line bool      // Str is a line variable constrained only by regular-language memberships
	// Bytes: a string of concrete length whose bytes are terms (7-bit ASCII by construction, see
	// vBytesStr): the representation for code that inspects a string byte by byte
	Bytes []*sym.Term
}

type Struct struct{ F []Value }
type Array struct{ E []Value }

type Cell struct {
	V      Value
	Kids   []*Cell
	Parent *Cell
	Idx    int
	T      types.Type
	Old    bool // existed before the current run started (package state)
	Shared int  // write-monitor tag (0 = private)
	PoolRel bool // handed to a sync.Pool and not taken out again (pool.go)
	PoolHot *poolUse // used by its former owner after Put, and since taken out of the pool by someone else
	Name   string
	Abs    *AbsArr   // element of an abstract slice
	AbsIdx *sym.Term
}

type Ptr struct{ C *Cell }
type PtrInt struct{ C *Cell }

type Slice struct {
	Arr      *Cell // cell of array type; nil for the nil slice
	Off      int
	Len, Cap int
}

type MapEntry struct {
	K Value
	V Value // for aggregate element types the value itself (maps are not addressable)
}

type MapObj struct {
	Keys   []string // canonical keys in insertion order
	Ent    map[string]*MapEntry
	KT, VT types.Type
	Old    bool
	Shared int
	saved  bool
	SymKeys bool // some key is symbolic: lookups go through the equality chain
	symSeq  int
}

type Map struct{ M *MapObj }

type Iface struct {
	T types.Type // nil for the nil interface
	V Value
}

type Func struct {
	Fn      *ssa.Function
	Env     []Value
	Builtin *ssa.Builtin
	// bound method closures created by the engine
	Recv Value
}

type Tuple []Value

type Opaque struct{ What string }

type MapIter struct {
	M    *MapObj
	Keys []string
	Pos  int
}

type StrIter struct {
	S   string
	Pos int
	B   []*sym.Term // byte-vector string
}

// ErrObj is the dynamic value of opaque errors produced by stubs and by the
// formatting functions.
type ErrObj struct {
	Site string
	Wrap Value // wrapped error (for %w), if any
	ID   int
}

func isNilPtr(v Value) bool {
	p, ok := v.(Ptr)
	return ok && p.C == nil
}

func unalias(t types.Type) types.Type { return types.Unalias(t) }

func under(t types.Type) types.Type { return unalias(t).Underlying() }

func (in *Interp) intWidth(t types.Type) (w int, signed bool, ok bool) {
	b, isB := under(t).(*types.Basic)
	if !isB {
		return 0, false, false
	}
	switch b.Kind() {
	case types.Int8:
		return 8, true, true
	case types.Int16:
		return 16, true, true
	case types.Int32:
		return 32, true, true
	case types.Int64:
		return 64, true, true
	case types.Int, types.UntypedInt, types.UntypedRune:
		return in.WordBits, true, true
	case types.Uint8:
		return 8, false, true
	case types.Uint16:
		return 16, false, true
	case types.Uint32:
		return 32, false, true
	case types.Uint64:
		return 64, false, true
	case types.Uint, types.Uintptr:
		return in.WordBits, false, true
	}
	return 0, false, false
}

func isString(t types.Type) bool {
	b, ok := under(t).(*types.Basic)
	return ok && b.Info()&types.IsString != 0
}

func isBool(t types.Type) bool {
	b, ok := under(t).(*types.Basic)
	return ok && b.Info()&types.IsBoolean != 0
}

func isFloat(t types.Type) bool {
	b, ok := under(t).(*types.Basic)
	return ok && b.Info()&(types.IsFloat|types.IsComplex) != 0
}

// zero returns the zero Value of type t.
func (in *Interp) zero(t types.Type) Value {
	switch u := under(t).(type) {
	case *types.Basic:
		switch {
		case u.Kind() == types.UnsafePointer:
			return Ptr{}
		case u.Info()&types.IsBoolean != 0:
			return in.B.False()
		case u.Info()&types.IsString != 0:
			return ""
		case u.Info()&types.IsInteger != 0:
			w, _, _ := in.intWidth(t)
			return in.B.Const(w, 0)
		case u.Kind() == types.UntypedNil:
			return Ptr{}
		default:
			return Opaque{"float0"}
		}
	case *types.Pointer:
		return Ptr{}
	case *types.Slice:
		return Slice{}
	case *types.Map:
		return Map{}
	case *types.Interface:
		return Iface{}
	case *types.Signature:
		return (*Func)(nil)
	case *types.Chan:
		return Opaque{"chan"}
	case *types.Struct:
		s := &Struct{F: make([]Value, u.NumFields())}
		for i := range s.F {
			s.F[i] = in.zero(u.Field(i).Type())
		}
		return s
	case *types.Array:
		a := &Array{E: make([]Value, int(u.Len()))}
		for i := range a.E {
			a.E[i] = in.zero(u.Elem())
		}
		return a
	case *types.Tuple:
		tp := make(Tuple, u.Len())
		for i := range tp {
			tp[i] = in.zero(u.At(i).Type())
		}
		return tp
	}
	panic(fmt.Sprintf("zero: unsupported type %v", t))
}

// newCell allocates a zeroed cell tree for type t.
func (in *Interp) newCell(t types.Type) *Cell {
	c := &Cell{T: t}
	in.initCell(c, t)
	return c
}

func (in *Interp) initCell(c *Cell, t types.Type) {
	switch u := under(t).(type) {
	case *types.Struct:
		c.Kids = make([]*Cell, u.NumFields())
		for i := range c.Kids {
			k := &Cell{T: u.Field(i).Type(), Parent: c, Idx: i}
			in.initCell(k, k.T)
			c.Kids[i] = k
		}
	case *types.Array:
		n := int(u.Len())
		c.Kids = make([]*Cell, n)
		for i := range c.Kids {
			k := &Cell{T: u.Elem(), Parent: c, Idx: i}
			in.initCell(k, k.T)
			c.Kids[i] = k
		}
	default:
		c.V = in.zero(t)
	}
}

// newArrayCell makes a cell holding n elements of type elem.
func (in *Interp) newArrayCell(elem types.Type, n int) *Cell {
	c := &Cell{T: types.NewArray(elem, int64(n))}
	c.Kids = make([]*Cell, n)
	for i := range c.Kids {
		k := &Cell{T: elem, Parent: c, Idx: i}
		in.initCell(k, elem)
		c.Kids[i] = k
	}
	return c
}

// load reads the value stored in the cell tree.
func (in *Interp) load(c *Cell) Value {
	if c == nil {
		in.goPanic("nil pointer dereference")
	}
	if c.Abs != nil {
		return in.absLoad(c)
	}
	if c.Kids == nil {
		if c.PoolRel || c.PoolHot != nil {
			in.poolAccess(c, false)
		}
		if _, ok := under(c.T).(*types.Struct); ok {
			return &Struct{}
		}
		if _, ok := under(c.T).(*types.Array); ok {
			return &Array{}
		}
		return c.V
	}
	switch under(c.T).(type) {
	case *types.Struct:
		s := &Struct{F: make([]Value, len(c.Kids))}
		for i, k := range c.Kids {
			s.F[i] = in.load(k)
		}
		return s
	default:
		a := &Array{E: make([]Value, len(c.Kids))}
		for i, k := range c.Kids {
			a.E[i] = in.load(k)
		}
		return a
	}
}

// store writes v into the cell tree.
func (in *Interp) store(c *Cell, v Value) {
	if c == nil {
		in.goPanic("nil pointer dereference")
	}
	if c.Abs != nil {
		in.absStore(c, v)
		return
	}
	if c.Kids != nil {
		switch x := v.(type) {
		case *Struct:
			for i, k := range c.Kids {
				in.store(k, x.F[i])
			}
		case *Array:
			for i, k := range c.Kids {
				in.store(k, x.E[i])
			}
		default:
			panic(fmt.Sprintf("store: aggregate cell %v gets %T", c.T, v))
		}
		return
	}
	if _, ok := v.(*Struct); ok && len(v.(*Struct).F) == 0 {
		return
	}
	if c.PoolRel || c.PoolHot != nil {
		in.poolAccess(c, true)
	}
	in.noteWrite(c)
	c.V = v
}

func (in *Interp) noteWrite(c *Cell) {
	if c.Old {
		in.journal = append(in.journal, undo{c: c, v: c.V})
	}
	root := c
	for root.Parent != nil {
		root = root.Parent
	}
	if c.Old || c.Shared != 0 || root.Shared != 0 {
		if in.monitorOn {
			in.sharedWrites = append(in.sharedWrites, in.where()+" writes "+cellName(c))
		}
	}
}

func cellName(c *Cell) string {
	s := ""
	for c != nil {
		if c.Name != "" {
			return c.Name + s
		}
		if c.Parent != nil {
			s = "." + strconv.Itoa(c.Idx) + s
		}
		if c.Parent == nil {
			return fmt.Sprintf("<%v>", c.T) + s
		}
		c = c.Parent
	}
	return s
}

// canonical key for maps with concrete keys.
func (in *Interp) canonKey(v Value) (string, bool) {
	switch x := v.(type) {
	case string:
		return "s:" + x, true
	case *sym.Term:
		if x.IsConst() {
			return "i:" + strconv.FormatUint(x.C, 16), true
		}
		return "", false
	case *SymStr:
		return "", false
	case Ptr:
		return fmt.Sprintf("p:%p", x.C), true
	case Iface:
		if x.T == nil {
			return "n:", true
		}
		k, ok := in.canonKey(x.V)
		return "I:" + x.T.String() + "/" + k, ok
	case *Struct:
		s := "S:"
		for _, f := range x.F {
			k, ok := in.canonKey(f)
			if !ok {
				return "", false
			}
			s += "(" + k + ")"
		}
		return s, true
	case *Array:
		s := "A:"
		for _, f := range x.E {
			k, ok := in.canonKey(f)
			if !ok {
				return "", false
			}
			s += "(" + k + ")"
		}
		return s, true
	}
	return "", false
}

// sortedKeys orders canonical keys by value: integers numerically, strings
// lexicographically.
func (m *MapObj) sortedKeys(desc bool) []string {
	keys := append([]string(nil), m.Keys...)
	less := func(a, b string) bool {
		if len(a) > 2 && a[:2] == "i:" && len(b) > 2 && b[:2] == "i:" {
			x, _ := strconv.ParseUint(a[2:], 16, 64)
			y, _ := strconv.ParseUint(b[2:], 16, 64)
			return x < y
		}
		return a < b
	}
	sort.SliceStable(keys, func(i, j int) bool {
		if desc {
			return less(keys[j], keys[i])
		}
		return less(keys[i], keys[j])
	})
	return keys
}

func (in *Interp) mapSet(m *MapObj, k Value, v Value) {
	ck, ok := in.canonKey(k)
	if !ok || m.SymKeys {
		// symbolic key (or a map that already has one): fork over "equals entry i" / "new key"
		keys := append([]string(nil), m.Keys...)
		conds := make([]*sym.Term, len(keys)+1)
		var eqs []*sym.Term
		for i, kk := range keys {
			conds[i] = in.eqValues(k, m.Ent[kk].K)
			eqs = append(eqs, conds[i])
		}
		conds[len(keys)] = in.B.Not(in.B.Or(eqs...))
		choice := in.chooseN(conds)
		in.noteMapWrite(m)
		if choice < len(keys) {
			m.Ent[keys[choice]].V = v
			return
		}
		if !ok {
			m.symSeq++
			ck = "y:" + strconv.Itoa(m.symSeq)
			m.SymKeys = true
		}
		m.Ent[ck] = &MapEntry{K: k, V: v}
		m.Keys = append(m.Keys, ck)
		return
	}
	in.noteMapWrite(m)
	if e, ok := m.Ent[ck]; ok {
		e.V = v
		return
	}
	m.Ent[ck] = &MapEntry{K: k, V: v}
	m.Keys = append(m.Keys, ck)
}

func (in *Interp) mapDelete(m *MapObj, k Value) {
	ck, ok := in.canonKey(k)
	if !ok || m.SymKeys {
		// symbolic key (or a map that has one): fork over "equals entry i" / "no such entry"
		keys := append([]string(nil), m.Keys...)
		conds := make([]*sym.Term, len(keys)+1)
		var eqs []*sym.Term
		for i, kk := range keys {
			conds[i] = in.eqValues(k, m.Ent[kk].K)
			eqs = append(eqs, conds[i])
		}
		conds[len(keys)] = in.B.Not(in.B.Or(eqs...))
		choice := in.chooseN(conds)
		if choice == len(keys) {
			return
		}
		ck = keys[choice]
	}
	if _, ok := m.Ent[ck]; !ok {
		return
	}
	in.noteMapWrite(m)
	delete(m.Ent, ck)
	for i, x := range m.Keys {
		if x == ck {
			m.Keys = append(m.Keys[:i:i], m.Keys[i+1:]...)
			break
		}
	}
}

func (in *Interp) noteMapWrite(m *MapObj) {
	if m.Old && !m.saved {
		m.saved = true
		cp := &MapObj{Keys: append([]string(nil), m.Keys...), Ent: make(map[string]*MapEntry, len(m.Ent))}
		for k, e := range m.Ent {
			c := *e
			cp.Ent[k] = &c
		}
		in.mapJournal = append(in.mapJournal, mapUndo{m: m, saved: cp})
	}
	if (m.Old || m.Shared != 0) && in.monitorOn {
		in.sharedWrites = append(in.sharedWrites, in.where()+" writes a shared map")
	}
}
