package gosym

// Use of pooled memory after Put. An object handed to a sync.Pool may be taken out by any other
// goroutine at once; whoever put it must not touch it again. The engine explores one schedule, so
// this is decided the way the write monitor decides races (DRF reduction, not interleavings):
// every cell reachable from the object is marked RELEASED at Put; an access by the former owner
// while it is released is remembered; when the object is taken out again the remembered cells become
// HOT, and an access of the new owner to a hot cell that conflicts with the remembered one (one of
// the two is a write) is reported to the write monitor's list (C13.race): under another schedule the
// two run concurrently without synchronisation.

type poolUse struct {
	where string
	write bool
}

func (in *Interp) poolWalk(v Value, seen map[*Cell]bool, f func(c *Cell)) {
	var cell func(c *Cell)
	cell = func(c *Cell) {
		if c == nil || seen[c] || c.Old {
			return
		}
		seen[c] = true
		f(c)
		for _, k := range c.Kids {
			cell(k)
		}
		in.poolWalk(c.V, seen, f)
	}
	switch x := v.(type) {
	case Ptr:
		cell(x.C)
	case Slice:
		cell(x.Arr)
	case Iface:
		in.poolWalk(x.V, seen, f)
	case *Struct:
		for _, e := range x.F {
			in.poolWalk(e, seen, f)
		}
	case *Array:
		for _, e := range x.E {
			in.poolWalk(e, seen, f)
		}
	}
}

func (in *Interp) poolRelease(v Value) {
	in.poolWalk(v, map[*Cell]bool{}, func(c *Cell) { c.PoolRel = true; c.PoolHot = nil })
}

func (in *Interp) poolAcquire(v Value) {
	in.poolWalk(v, map[*Cell]bool{}, func(c *Cell) {
		c.PoolRel = false
		if u, ok := in.poolUses[c]; ok {
			c.PoolHot = u
			delete(in.poolUses, c)
		}
	})
}

func (in *Interp) poolAccess(c *Cell, write bool) {
	if in.inPoolModel {
		return
	}
	if c.PoolRel {
		if in.poolUses == nil {
			in.poolUses = map[*Cell]*poolUse{}
		}
		if u, ok := in.poolUses[c]; !ok || (write && !u.write) {
			in.poolUses[c] = &poolUse{where: in.where(), write: write}
		}
		return
	}
	if u := c.PoolHot; u != nil && (write || u.write) {
		c.PoolHot = nil
		msg := u.where + " uses " + cellName(c) + " after it went back to a sync.Pool; " + in.where() + " uses the same memory after taking it out"
		for _, m := range in.sharedWrites {
			if m == msg {
				return
			}
		}
		in.sharedWrites = append(in.sharedWrites, msg)
	}
}
