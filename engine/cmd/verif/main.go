package main

import (
	"encoding/json"
	"flag"
	"fmt"
	"os"
	"sort"
	"strings"

	"verif/engine/checks"
	"verif/engine/run"
)

func usage() {
	fmt.Fprintln(os.Stderr, `usage:
  verif check <ID> [--tier quick|thorough]     decide one property on /repo's working tree
  verif replay <file>                          re-run a replay file natively
  verif run --pkg <dir> --harness H --params '{json}'   run one harness instance (debugging)
  verif selftest [--tier quick|thorough]       translator validation`)
	os.Exit(2)
}

func main() {
	if len(os.Args) < 2 {
		usage()
	}
	switch os.Args[1] {
	case "run":
		cmdRun(os.Args[2:])
	case "check":
		os.Exit(checks.Main(os.Args[2:]))
	case "replay":
		os.Exit(checks.ReplayMain(os.Args[2:]))
	case "selftest":
		os.Exit(checks.SelftestMain(os.Args[2:]))
	case "rewrite":
		// debugging: print the sources the native replay is built from (verif rewrite <dir> [repo] [verif])
		repo, vd := "/repo", "/verif"
		if len(os.Args) > 3 {
			repo = os.Args[3]
		}
		if len(os.Args) > 4 {
			vd = os.Args[4]
		}
		m, err := run.RewriteTyped(repo, vd, os.Args[2])
		if err != nil {
			fmt.Println(err)
			os.Exit(2)
		}
		for name, b := range m {
			fmt.Printf("==== %s\n%s\n", name, b)
		}
	default:
		usage()
	}
}

func cmdRun(args []string) {
	fs := flag.NewFlagSet("run", flag.ExitOnError)
	repo := fs.String("repo", "/repo", "repository")
	verif := fs.String("verif", "/verif", "verif dir")
	dir := fs.String("pkg", "root", "harness directory (root, arch, cmd/sandbox, ...)")
	harness := fs.String("harness", "", "harness function")
	params := fs.String("params", "{}", "JSON parameters")
	solvers := fs.String("solvers", "z3new,cvc5,z3", "solver order")
	open := fs.String("open", "", "comma-separated open known-finding ids")
	native := fs.Bool("native", false, "replay violations natively")
	fs.Parse(args)
	var pm map[string]interface{}
	if err := json.Unmarshal([]byte(*params), &pm); err != nil {
		fmt.Fprintln(os.Stderr, "params:", err)
		os.Exit(2)
	}
	cfg := run.Config{RepoDir: *repo, VerifDir: *verif, Workers: 1, Solvers: strings.Split(*solvers, ",")}
	s, err := run.NewSession(cfg, []string{*dir}, checks.PatternsFor(*dir)...)
	if err != nil {
		fmt.Fprintln(os.Stderr, "load:", err)
		os.Exit(2)
	}
	fmt.Printf("loaded in %.2fs\n", s.LoadS)
	job := run.Job{ID: "adhoc", Property: "adhoc", Pkg: checks.PkgOfDir(*dir), Harness: *harness, Params: pm, CoverModels: true}
	if *open != "" {
		job.Open = strings.Split(*open, ",")
	}
	res, stats, err := s.RunJobs([]run.Job{job}, nil)
	if err != nil {
		fmt.Fprintln(os.Stderr, "run:", err)
		os.Exit(2)
	}
	r := res[0]
	fmt.Printf("paths=%d kinds=%v wall=%.2fs terms=%d err=%q\n", r.Paths, r.PathKinds, r.WallS, r.Terms, r.Err)
	fmt.Printf("asserts=%v trivial=%v\n", r.Asserts, r.Trivial)
	fmt.Printf("covers=%v\n", r.Covers)
	for _, i := range r.Inconclusive {
		fmt.Println("INCONCLUSIVE:", i)
	}
	for _, v := range r.Violations {
		fmt.Printf("VIOLATION tag=%s known=%q where=%s obs=%v\n   values=%v\n   choices=%v notes=%v\n", v.Tag, v.Known, v.Where, v.Obs, v.Values, v.Choices, v.PathNotes)
	}
	var names []string
	for n := range stats.By {
		names = append(names, n)
	}
	sort.Strings(names)
	for _, n := range names {
		p := stats.By[n]
		fmt.Printf("solver %s: q=%d sat=%d unsat=%d unknown=%d err=%d wall=%.2fs %s\n", n, p.Queries, p.Sat, p.Unsat, p.Unknown, p.Errors, p.WallS, p.LastErr)
	}
	fmt.Printf("decided=%d cross=%d byone=%d inconcl=%d\n", stats.Decided, stats.CrossChecked, stats.DecidedByOne, stats.Inconclusive)
	if *native && len(r.Violations) > 0 {
		rp, err := run.NewReplayer(*repo, *verif)
		if err != nil {
			fmt.Fprintln(os.Stderr, err)
			os.Exit(2)
		}
		defer rp.Close()
		var files []string
		for _, v := range r.Violations {
			f, _ := run.WriteReplay(os.TempDir()+"/verif-adhoc", job, v)
			files = append(files, f)
		}
		nres, err := rp.Run(job.Pkg, files)
		if err != nil {
			fmt.Fprintln(os.Stderr, err)
			os.Exit(2)
		}
		for i, f := range files {
			n := nres[f]
			fmt.Printf("native %s: fails=%v obs=%v panic=%q assume=%v err=%q (expected %s)\n", f, n.Fails, n.Obs, n.Panic, n.Assume, n.Error, r.Violations[i].Tag)
		}
	}
}
