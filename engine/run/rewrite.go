package run

// Typed boundary rewrite for the native replay. The engine redirects calls by
// the callee's full name (RedirectTable); the native build gets the same
// redirection as a source rewrite decided by go/types, so that it does not
// depend on how the code under test names its variables or in which function
// or file a call sits: every call whose callee is in the table, and for which
// the harness of that directory defines the stub, becomes a call of the stub
// (a method's receiver becomes the first argument).

import (
	"fmt"
	"go/ast"
	"go/types"
	"os"
	"path/filepath"
	"regexp"
	"sort"
	"strings"

	"golang.org/x/tools/go/packages"
)

var stubDefRe = regexp.MustCompile(`(?m)^func (vstub\w+)\(`)

// stubsDefined lists the vstub* functions the harness of a directory defines
// (its own files and the runtime template).
func stubsDefined(verifDir, dir string) map[string]bool {
	out := map[string]bool{}
	add := func(b []byte) {
		for _, m := range stubDefRe.FindAllSubmatch(b, -1) {
			out[string(m[1])] = true
		}
	}
	if b, err := os.ReadFile(filepath.Join(verifDir, "harness/rt/zz_verif_rt.go.tmpl")); err == nil {
		add(b)
	}
	ents, _ := os.ReadDir(filepath.Join(verifDir, "harness", dir))
	for _, e := range ents {
		if strings.HasSuffix(e.Name(), ".go") {
			if b, err := os.ReadFile(filepath.Join(verifDir, "harness", dir, e.Name())); err == nil {
				add(b)
			}
		}
	}
	return out
}

type srcEdit struct {
	from, to         int    // replaced range
	stub             string // replacement starts with the stub's name
	method           bool   // ... followed by "(" receiver [", "]
	recvFrom, recvTo int
	recvPrefix       string
	hasArgs          bool
}

// renderEdits renders src[a:b] with every edit inside applied; the receiver of
// a redirected method call is rendered recursively (x.f().g() with both
// redirected).
func renderEdits(src string, edits []srcEdit, a, b int) string {
	var sb strings.Builder
	pos := a
	for _, e := range edits { // ascending by from; outer before inner at equal from
		if e.from < pos || e.to > b {
			continue
		}
		sb.WriteString(src[pos:e.from])
		sb.WriteString(e.stub)
		if e.method {
			sb.WriteString("(" + e.recvPrefix + renderEdits(src, edits, e.recvFrom, e.recvTo))
			if e.hasArgs {
				sb.WriteString(", ")
			}
		}
		pos = e.to
	}
	sb.WriteString(src[pos:b])
	return sb.String()
}

// RewriteTyped returns, for the package in repoDir/<dir>, the rewritten
// contents of every source file that contains a redirected call.
func RewriteTyped(repoDir, verifDir, dir string) (map[string][]byte, error) {
	table := RedirectTable()
	have := stubsDefined(verifDir, dir)
	pat := "."
	if dir != "root" {
		pat = "./" + dir
	}
	cfg := &packages.Config{
		Mode: packages.NeedName | packages.NeedFiles | packages.NeedCompiledGoFiles | packages.NeedSyntax | packages.NeedTypes | packages.NeedTypesInfo | packages.NeedImports | packages.NeedDeps,
		Dir:  repoDir,
		Env:  append(os.Environ(), "GOFLAGS=-mod=mod", "GOPROXY=off", "GOSUMDB=off", "GOTOOLCHAIN=local", "CGO_ENABLED=0"),
	}
	pkgs, err := packages.Load(cfg, pat)
	if err != nil {
		return nil, err
	}
	if len(pkgs) != 1 {
		return nil, fmt.Errorf("typed rewrite: %d packages for %s", len(pkgs), pat)
	}
	pkg := pkgs[0]
	if len(pkg.Errors) > 0 {
		return nil, fmt.Errorf("typed rewrite: %s does not type-check: %v", pat, pkg.Errors[0])
	}
	out := map[string][]byte{}
	for i, f := range pkg.Syntax {
		name := pkg.CompiledGoFiles[i]
		base := filepath.Base(name)
		if strings.HasPrefix(base, "zz_verif_") || strings.HasSuffix(base, "_test.go") || !strings.HasSuffix(base, ".go") {
			continue
		}
		src, err := os.ReadFile(name)
		if err != nil {
			return nil, err
		}
		tf := pkg.Fset.File(f.Pos())
		var edits []srcEdit
		ast.Inspect(f, func(n ast.Node) bool {
			call, ok := n.(*ast.CallExpr)
			if !ok {
				return true
			}
			var id *ast.Ident
			var sel *ast.SelectorExpr
			switch fun := call.Fun.(type) {
			case *ast.Ident:
				id = fun
			case *ast.SelectorExpr:
				id, sel = fun.Sel, fun
			default:
				return true
			}
			fn, ok := pkg.TypesInfo.Uses[id].(*types.Func)
			if !ok {
				return true
			}
			stub, ok := table[fn.FullName()]
			if !ok || !have[stub] {
				return true
			}
			funFrom, funTo := tf.Offset(call.Fun.Pos()), tf.Offset(call.Fun.End())
			lparen := tf.Offset(call.Lparen)
			sig := fn.Type().(*types.Signature)
			if sig.Recv() == nil {
				edits = append(edits, srcEdit{from: funFrom, to: funTo, stub: stub})
				return true
			}
			// a method: the receiver expression becomes the first argument
			if sel == nil {
				return true
			}
			s := pkg.TypesInfo.Selections[sel]
			if s == nil || s.Kind() != types.MethodVal || len(s.Index()) != 1 {
				return true // promoted through embedding, method expression: left alone
			}
			e := srcEdit{from: funFrom, to: lparen + 1, stub: stub, method: true, recvFrom: tf.Offset(sel.X.Pos()), recvTo: tf.Offset(sel.X.End()), hasArgs: len(call.Args) > 0}
			_, wantPtr := sig.Recv().Type().(*types.Pointer)
			_, havePtr := pkg.TypesInfo.TypeOf(sel.X).Underlying().(*types.Pointer)
			if wantPtr && !havePtr {
				e.recvPrefix = "&"
			} else if !wantPtr && havePtr {
				e.recvPrefix = "*"
			}
			edits = append(edits, e)
			return true
		})
		if len(edits) == 0 {
			continue
		}
		sort.SliceStable(edits, func(i, j int) bool {
			if edits[i].from != edits[j].from {
				return edits[i].from < edits[j].from
			}
			return edits[i].to > edits[j].to
		})
		res := renderEdits(string(src), edits, 0, len(src))
		out[name] = []byte(fixUnusedImports(res))
	}
	return out, nil
}
