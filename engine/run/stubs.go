package run

import "verif/engine/gosym"

// ConfigureStubs installs the redirect table (callee -> harness stub of the
// same signature) and the traced functions.
func ConfigureStubs(in *gosym.Interp) {
	in.Redirect["syscall.Syscall"] = "vstubSyscall"
	in.Redirect["syscall.Syscall6"] = "vstubSyscall6"
	in.Redirect["syscall.RawSyscall"] = "vstubSyscall"
	in.Redirect["syscall.RawSyscall6"] = "vstubSyscall6"
	in.Redirect["runtime.LockOSThread"] = "vstubLockOSThread"
	in.Redirect["runtime.UnlockOSThread"] = "vstubUnlockOSThread"
	// cmd/sandbox
	in.Redirect["flag.StringVar"] = "vstubStringVar"
	in.Redirect["flag.BoolVar"] = "vstubBoolVar"
	in.Redirect["flag.Parse"] = "vstubFlagParse"
	in.Redirect["flag.Args"] = "vstubFlagArgs"
	in.Redirect[Module+"/cmd/sandbox.parsePolicy"] = "vstubParsePolicy"
	in.Redirect["github.com/elastic/go-ucfg/yaml.NewConfigWithFile"] = "vstubNewConfigWithFile"
	in.Redirect["(*github.com/elastic/go-ucfg.Config).Unpack"] = "vstubUnpack"
	in.Redirect[Module+".LoadFilter"] = "vstubLoadFilter"
	in.Redirect["os/exec.Command"] = "vstubCommand"
	in.Redirect["(*os/exec.Cmd).Run"] = "vstubCmdRun"
	in.Redirect["os.Exit"] = "vstubExit"
	// disasm
	d := Module + "/cmd/seccomp-profiler/disasm"
	in.Redirect["os.Open"] = "vstubOpen"
	in.Redirect["(*os.File).Close"] = "vstubFileClose"
	in.Redirect["bufio.NewReader"] = "vstubNewReader"
	in.Redirect["bufio.NewScanner"] = "vstubNewScanner"
	in.Redirect["(*bufio.Scanner).Scan"] = "vstubScan"
	in.Redirect["(*bufio.Scanner).Text"] = "vstubText"
	in.Redirect["(*bufio.Scanner).Err"] = "vstubScanErr"
	in.Redirect[d+".findSyscallNum"] = "vstubFindSyscallNum"
	in.Summarize[d+".isSyscallFunction"] = true
	in.Summarize["(*"+d+".parser).isRawSyscall"] = true
}
