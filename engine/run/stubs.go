package run

import "verif/engine/gosym"

// ConfigureStubs installs the redirect table (callee -> harness stub of the
// same signature) and the traced functions.
func ConfigureStubs(in *gosym.Interp) {
	for k, v := range RedirectTable() {
		in.Redirect[k] = v
	}
	d := Module + "/cmd/seccomp-profiler/disasm"
	in.Summarize[d+".isSyscallFunction"] = true
	in.Summarize["(*"+d+".parser).isRawSyscall"] = true
}

// RedirectTable: callee (full name as go/types and go/ssa print it) -> harness
// stub. The engine applies it to every call that is not made by harness code;
// the native replay applies it as a typed source rewrite (rewrite.go).
func RedirectTable() map[string]string {
	in := &struct{ Redirect map[string]string }{map[string]string{}}
	in.Redirect["syscall.Syscall"] = "vstubSyscall"
	in.Redirect["syscall.Syscall6"] = "vstubSyscall6"
	in.Redirect["syscall.RawSyscall"] = "vstubSyscall"
	in.Redirect["syscall.RawSyscall6"] = "vstubSyscall6"
	in.Redirect["golang.org/x/sys/unix.Syscall"] = "vstubSyscall"
	in.Redirect["golang.org/x/sys/unix.Syscall6"] = "vstubSyscall6"
	in.Redirect["golang.org/x/sys/unix.RawSyscall"] = "vstubSyscall"
	in.Redirect["golang.org/x/sys/unix.RawSyscall6"] = "vstubSyscall6"
	in.Redirect["golang.org/x/sys/unix.Prctl"] = "vstubUnixPrctl"
	in.Redirect["runtime.LockOSThread"] = "vstubLockOSThread"
	in.Redirect["runtime.UnlockOSThread"] = "vstubUnlockOSThread"
	// ambient environment (stubs in the runtime file of every package)
	for _, pk := range []string{"syscall", "os", "golang.org/x/sys/unix"} {
		for _, f := range []string{"Getuid", "Geteuid", "Getgid", "Getegid", "Getpid", "Getppid", "Gettid", "Getenv", "LookupEnv"} {
			in.Redirect[pk+"."+f] = "vstub" + f
		}
	}
	in.Redirect["syscall.Getenv"] = "vstubLookupEnv"
	in.Redirect["golang.org/x/sys/unix.Getenv"] = "vstubLookupEnv"
	// cmd/sandbox
	in.Redirect["flag.StringVar"] = "vstubStringVar"
	in.Redirect["flag.BoolVar"] = "vstubBoolVar"
	in.Redirect["flag.Parse"] = "vstubFlagParse"
	in.Redirect["flag.Args"] = "vstubFlagArgs"
	in.Redirect["github.com/elastic/go-ucfg/yaml.NewConfigWithFile"] = "vstubNewConfigWithFile"
	in.Redirect["github.com/elastic/go-ucfg/yaml.NewConfig"] = "vstubNewConfig"
	in.Redirect["io.ReadAll"] = "vstubReadAll"
	in.Redirect["io.ReadFull"] = "vstubReadFull"
	in.Redirect["path/filepath.Glob"] = "vstubGlob"
	in.Redirect["github.com/elastic/go-ucfg.MetaData"] = "vstubMetaData"
	in.Redirect["github.com/elastic/go-ucfg.PathSep"] = "vstubPathSep"
	in.Redirect["io/ioutil.ReadAll"] = "vstubReadAll"
	in.Redirect["io/ioutil.ReadFile"] = "vstubReadFile"
	in.Redirect["io.LimitReader"] = "vstubLimitReader"
	in.Redirect["(*github.com/elastic/go-ucfg.Config).Unpack"] = "vstubUnpack"
	in.Redirect[Module+".LoadFilter"] = "vstubLoadFilter"
	in.Redirect["os/exec.Command"] = "vstubCommand"
	in.Redirect["(*os/exec.Cmd).Run"] = "vstubCmdRun"
	in.Redirect["os.Exit"] = "vstubExit"
	in.Redirect["os/exec.CommandContext"] = "vstubCommandContext"
	in.Redirect["context.Background"] = "vstubBackground"
	in.Redirect["context.TODO"] = "vstubBackground"
	in.Redirect["os/signal.NotifyContext"] = "vstubNotifyContext"
	in.Redirect["flag.NewFlagSet"] = "vstubNewFlagSet"
	in.Redirect["(*flag.FlagSet).StringVar"] = "vstubFSStringVar"
	in.Redirect["(*flag.FlagSet).BoolVar"] = "vstubFSBoolVar"
	in.Redirect["(*flag.FlagSet).Parse"] = "vstubFSParse"
	in.Redirect["(*flag.FlagSet).SetOutput"] = "vstubFSSetOutput"
	in.Redirect["(*flag.FlagSet).PrintDefaults"] = "vstubFSPrintDefaults"
	in.Redirect["(*flag.FlagSet).String"] = "vstubFSString"
	in.Redirect["(*flag.FlagSet).Bool"] = "vstubFSBool"
	in.Redirect["flag.String"] = "vstubFlagString"
	in.Redirect["flag.Bool"] = "vstubFlagBool"
	in.Redirect["(*flag.FlagSet).Args"] = "vstubFSArgs"
	in.Redirect["(*flag.FlagSet).NArg"] = "vstubFSNArg"
	in.Redirect["(*flag.FlagSet).Arg"] = "vstubFSArg"
	in.Redirect["flag.NArg"] = "vstubNArg"
	in.Redirect["log.Fatalln"] = "vstubFatalln"
	// cmd/seccomp-profiler
	pm := Module + "/cmd/seccomp-profiler"
	in.Redirect["flag.Var"] = "vstubFlagVar"
	in.Redirect["flag.Arg"] = "vstubFlagArg"
	in.Redirect["log.Fatal"] = "vstubFatal"
	in.Redirect["log.Fatalf"] = "vstubFatalf"
	in.Redirect[pm+".getBinaryArch"] = "vstubGetBinaryArch"
	in.Redirect[pm+".hashBinary"] = "vstubHashBinary"
	in.Redirect[pm+".doObjdump"] = "vstubDoObjdump"
	in.Redirect[Module+"/cmd/seccomp-profiler/disasm.ExtractSyscalls"] = "vstubExtractSyscalls"
	in.Redirect[pm+".openOutput"] = "vstubOpenOutput"
	in.Redirect[pm+".writeGoTemplate"] = "vstubWriteGoTemplate"
	in.Redirect["gopkg.in/yaml.v2.Marshal"] = "vstubYAMLMarshal"
	in.Redirect[pm+".cachedDumpFile"] = "vstubCachedDumpFile"
	in.Redirect["io.Copy"] = "vstubCopy"
	in.Redirect["os.ReadFile"] = "vstubReadFile"
	in.Redirect["os.WriteFile"] = "vstubWriteFile"
	in.Redirect["(*os/exec.Cmd).Output"] = "vstubCmdOutput"
	in.Redirect["(*os/exec.Cmd).CombinedOutput"] = "vstubCmdOutput"
	in.Redirect["crypto/sha256.New"] = "vstubSha256New"
	in.Redirect["os.Create"] = "vstubCreate"
	in.Redirect["os.CreateTemp"] = "vstubCreateTemp"
	in.Redirect["os.Rename"] = "vstubRename"
	in.Redirect["os.Remove"] = "vstubRemove"
	in.Redirect["(*os.File).Name"] = "vstubFileName"
	in.Redirect["(*os.File).Read"] = "vstubFileRead"
	in.Redirect["(*os.File).Write"] = "vstubFileWrite"
	in.Redirect["(*os.File).Sync"] = "vstubFileSync"
	in.Redirect["bufio.NewWriter"] = "vstubNewWriter"
	in.Redirect["(*bufio.Writer).WriteString"] = "vstubWriteString"
	in.Redirect["(*bufio.Writer).Flush"] = "vstubFlush"
	// disasm
	d := Module + "/cmd/seccomp-profiler/disasm"
	in.Redirect["os.Open"] = "vstubOpen"
	in.Redirect["(*os.File).Close"] = "vstubFileClose"
	in.Redirect["bufio.NewReader"] = "vstubNewReader"
	in.Redirect["bufio.NewScanner"] = "vstubNewScanner"
	in.Redirect["(*bufio.Scanner).Scan"] = "vstubScan"
	in.Redirect["(*bufio.Scanner).Text"] = "vstubText"
	in.Redirect["(*bufio.Scanner).Err"] = "vstubScanErr"
	in.Redirect["(*bufio.Scanner).Buffer"] = "vstubBuffer"
	in.Redirect[d+".findSyscallNum"] = "vstubFindSyscallNum"
	return in.Redirect
}
