package run

import "verif/engine/gosym"

// ConfigureStubs installs the redirect table (callee -> harness stub of the
// same signature) and the traced functions.
func ConfigureStubs(in *gosym.Interp) {
	in.Redirect["syscall.Syscall"] = "vstubSyscall"
	in.Redirect["syscall.Syscall6"] = "vstubSyscall6"
	in.Redirect["syscall.RawSyscall"] = "vstubSyscall"
	in.Redirect["syscall.RawSyscall6"] = "vstubSyscall6"
	in.Redirect["runtime.LockOSThread"] = "vstubLockOSThread"
	in.Redirect["runtime.UnlockOSThread"] = "vstubUnlockOSThread"
}
