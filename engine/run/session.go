// Package run drives the symbolic interpreter over harness instances, writes
// replay files and runs native replays.
package run

import (
	"encoding/json"
	"fmt"
	"os"
	"os/exec"
	"path/filepath"
	"regexp"
	"sort"
	"strings"
	"sync"
	"time"

	"golang.org/x/tools/go/ssa"

	"verif/engine/gosym"
	"verif/engine/sym"
)

const Module = "github.com/elastic/go-seccomp-bpf"

type Config struct {
	RepoDir  string
	VerifDir string
	Workers  int
	Solvers  []string
	GOOS     string
	GOARCH   string
	Tier     string
	Seed     int64
	Verbose  bool
}

type Session struct {
	Cfg     Config
	L       *gosym.Loaded
	Overlay map[string][]byte
	LoadS   float64
	// harness packages (import path -> dir relative to the repository)
	pkgDirs map[string]string
}

// pkgOfDir maps harness directories to import paths.
var harnessDirs = map[string]string{
	"root":                        Module,
	"arch":                        Module + "/arch",
	"cmd/sandbox":                 Module + "/cmd/sandbox",
	"cmd/seccomp-profiler":        Module + "/cmd/seccomp-profiler",
	"cmd/seccomp-profiler/disasm": Module + "/cmd/seccomp-profiler/disasm",
}

var pkgNames = map[string]string{
	"root":                        "seccomp",
	"arch":                        "arch",
	"cmd/sandbox":                 "main",
	"cmd/seccomp-profiler":        "main",
	"cmd/seccomp-profiler/disasm": "disasm",
}

// BuildOverlay assembles the virtual files: harness sources of each package
// directory plus a generated copy of the runtime file. withTests adds the
// replay test driver.
func BuildOverlay(repoDir, verifDir string, withTests bool, dirs ...string) (map[string][]byte, error) {
	ov := map[string][]byte{}
	tmpl, err := os.ReadFile(filepath.Join(verifDir, "harness/rt/zz_verif_rt.go.tmpl"))
	if err != nil {
		return nil, err
	}
	for _, d := range dirs {
		hd := filepath.Join(verifDir, "harness", d)
		ents, err := os.ReadDir(hd)
		if err != nil {
			return nil, err
		}
		rd := repoDir
		if d != "root" {
			rd = filepath.Join(repoDir, d)
		}
		for _, e := range ents {
			if e.IsDir() || !strings.HasSuffix(e.Name(), ".go") {
				continue
			}
			b, err := os.ReadFile(filepath.Join(hd, e.Name()))
			if err != nil {
				return nil, err
			}
			ov[filepath.Join(rd, e.Name())] = b
		}
		ov[filepath.Join(rd, "zz_verif_rt.go")] = []byte(strings.Replace(string(tmpl), "PKGNAME", pkgNames[d], 1))
		if d == "arch" {
			src, err := oracleGoSource(verifDir)
			if err != nil {
				return nil, err
			}
			ov[filepath.Join(rd, "zz_verif_oracle.go")] = []byte(src)
		}
		if withTests {
			hook := "func vKernelHook() {}\n"
			if d == "root" {
				hook = "func vKernelHook() { vKernelMain() }\n"
			}
			ov[filepath.Join(rd, "zz_verif_replay_test.go")] = []byte(strings.Replace(replayTestSrc, "PKGNAME", pkgNames[d], 1) + hook)
			if NoBoundaryRewrite {
				continue
			}
			// the package's sources with every redirected call rewritten to its stub (decided by go/types, so
			// independent of variable names, functions and files); the textual rules are the fall-back
			if typed, err := RewriteTyped(repoDir, verifDir, d); err == nil {
				for name, content := range typed {
					ov[name] = content
				}
				continue
			} else {
				fmt.Fprintf(os.Stderr, "typed boundary rewrite unavailable for %s (%v): textual rules used\n", d, err)
			}
			for _, name := range boundaryFiles[d] {
				src, err := os.ReadFile(filepath.Join(rd, name))
				if err != nil {
					continue
				}
				ov[filepath.Join(rd, name)] = []byte(RewriteBoundary(d, string(src)))
			}
		}
	}
	return ov, nil
}

// oracleGoSource renders /verif/oracle/*.json as Go data for the arch harness.
func oracleGoSource(verifDir string) (string, error) {
	var sc struct {
		Tables map[string]map[string]map[string]int `json:"tables"`
	}
	b, err := os.ReadFile(filepath.Join(verifDir, "oracle/syscalls.json"))
	if err != nil {
		return "", err
	}
	if err := json.Unmarshal(b, &sc); err != nil {
		return "", err
	}
	var au struct {
		AuditArch map[string]uint32 `json:"audit_arch"`
	}
	b, err = os.ReadFile(filepath.Join(verifDir, "oracle/audit_arch.json"))
	if err != nil {
		return "", err
	}
	if err := json.Unmarshal(b, &au); err != nil {
		return "", err
	}
	var sb strings.Builder
	sb.WriteString("package arch\n\n// generated from /verif/oracle/*.json at run time\n\n")
	sb.WriteString("func vOracleTable(table, source string) map[string]int {\n\tswitch table + \"/\" + source {\n")
	var keys []string
	for a, srcs := range sc.Tables {
		for s := range srcs {
			keys = append(keys, a+"/"+s)
		}
	}
	sort.Strings(keys)
	for i, k := range keys {
		fmt.Fprintf(&sb, "\tcase %q:\n\t\treturn vOracle%d\n", k, i)
	}
	sb.WriteString("\t}\n\treturn nil\n}\n\n")
	for i, k := range keys {
		parts := strings.SplitN(k, "/", 2)
		tab := sc.Tables[parts[0]][parts[1]]
		var names []string
		for n := range tab {
			names = append(names, n)
		}
		sort.Strings(names)
		fmt.Fprintf(&sb, "var vOracle%d = map[string]int{\n", i)
		for _, n := range names {
			fmt.Fprintf(&sb, "\t%q: %d,\n", n, tab[n])
		}
		sb.WriteString("}\n\n")
	}
	sb.WriteString("var vAuditArch = map[string]uint32{\n")
	var an []string
	for n := range au.AuditArch {
		an = append(an, n)
	}
	sort.Strings(an)
	for _, n := range an {
		fmt.Fprintf(&sb, "\t%q: %#x,\n", n, au.AuditArch[n])
	}
	sb.WriteString("}\n")
	return sb.String(), nil
}

// OracleSources lists the (table, source) pairs of the vendored oracle.
func OracleSources(verifDir string) ([][2]string, error) {
	var sc struct {
		Tables map[string]map[string]map[string]int `json:"tables"`
	}
	b, err := os.ReadFile(filepath.Join(verifDir, "oracle/syscalls.json"))
	if err != nil {
		return nil, err
	}
	if err := json.Unmarshal(b, &sc); err != nil {
		return nil, err
	}
	var out [][2]string
	for a, srcs := range sc.Tables {
		for s := range srcs {
			out = append(out, [2]string{a, s})
		}
	}
	sort.Slice(out, func(i, j int) bool { return out[i][0]+out[i][1] < out[j][0]+out[j][1] })
	return out, nil
}

// NoBoundaryRewrite builds the native test binary against the unmodified
// boundary files (used for the real-kernel validation only).
var NoBoundaryRewrite bool

// boundaryFiles are compiled, for the native replay only, with their calls
// into the operating system redirected to the harness stubs (the engine does
// the same redirection by callee name).
var boundaryFiles = map[string][]string{
	"root":                        {"seccomp_linux.go"},
	"cmd/sandbox":                 {"main.go"},
	"cmd/seccomp-profiler":        {"main.go"},
	"cmd/seccomp-profiler/disasm": {"disasm.go"},
}

// nativeDeps: packages below the harness package whose boundary must be
// stubbed in the native replay too (the engine interprets them with the same
// stubs): cmd/sandbox calls the real LoadFilter/Supported, which must meet the
// kernel contract stub and never the kernel of the machine running the check.
var nativeDeps = map[string][]string{
	"cmd/sandbox": {"root"},
}

type rewrite struct {
	scope    string // "" = whole file, else the name of the function whose body is rewritten
	from, to string
}

// ambientRewrites apply to the boundary files of every directory.
var ambientRewrites = func() []rewrite {
	var rs []rewrite
	for _, pk := range []string{"syscall", "os", "unix"} {
		for _, f := range []string{"Getuid", "Geteuid", "Getgid", "Getegid", "Getpid", "Getppid", "Gettid"} {
			rs = append(rs, rewrite{"", pk + "." + f + "(", "vstub" + f + "("})
		}
	}
	rs = append(rs, rewrite{"", "os.Getenv(", "vstubGetenv("}, rewrite{"", "os.LookupEnv(", "vstubLookupEnv("},
		rewrite{"", "syscall.Getenv(", "vstubLookupEnv("}, rewrite{"", "unix.Getenv(", "vstubLookupEnv("})
	return rs
}()

var boundaryRewrites = map[string][]rewrite{
	"root": {
		{"", "syscall.Syscall6(", "vstubSyscall6("},
		{"", "syscall.Syscall(", "vstubSyscall("},
		{"", "syscall.RawSyscall6(", "vstubSyscall6("},
		{"", "syscall.RawSyscall(", "vstubSyscall("},
		{"", "runtime.LockOSThread(", "vstubLockOSThread("},
		{"", "runtime.UnlockOSThread(", "vstubUnlockOSThread("},
	},
	"cmd/sandbox": {
		{"", "flag.StringVar(", "vstubStringVar("},
		{"", "flag.BoolVar(", "vstubBoolVar("},
		{"", "flag.Parse()", "vstubFlagParse()"},
		{"", "flag.Args()", "vstubFlagArgs()"},
		{"", "= parsePolicy()", "= vstubParsePolicy()"},
		{"", "yaml.NewConfigWithFile(", "vstubNewConfigWithFile("},
		{"", "conf.Unpack(", "vstubUnpack(conf, "},
		{"", "seccomp.LoadFilter(", "vstubLoadFilter("},
		{"", "exec.Command(", "vstubCommand("},
		{"", "cmd.Run()", "vstubCmdRun(cmd)"},
		{"", "os.Exit(", "vstubExit("},
	},
	"cmd/seccomp-profiler/disasm": {
		{"", "os.Open(", "vstubOpen("},
		{"", "f.Close()", "vstubFileClose(f)"},
		{"", "bufio.NewScanner(", "vstubNewScanner("},
		{"", "bufio.NewReader(", "vstubNewReader("},
		{"", "s.Scan()", "vstubScan(s)"},
		{"", "s.Text()", "vstubText(s)"},
		{"", "s.Err()", "vstubScanErr(s)"},
		{"", "s.Buffer(", "vstubBuffer(s, "},
		{"", "findSyscallNum(instructions, s", "vstubFindSyscallNum(instructions, s"},
	},
	"cmd/seccomp-profiler": {
		{"", "flag.StringVar(", "vstubStringVar("},
		{"", "flag.BoolVar(", "vstubBoolVar("},
		{"", "flag.Var(", "vstubFlagVar("},
		{"", "flag.Parse()", "vstubFlagParse()"},
		{"", "flag.Arg(", "vstubFlagArg("},
		{"", "log.Fatalf(", "vstubFatalf("},
		{"", "log.Fatal(", "vstubFatal("},
		{"main", "= getBinaryArch(", "= vstubGetBinaryArch("},
		{"main", "= hashBinary(", "= vstubHashBinary("},
		{"main", "= doObjdump(", "= vstubDoObjdump("},
		{"main", "disasm.ExtractSyscalls(", "vstubExtractSyscalls("},
		{"main", "= openOutput(", "= vstubOpenOutput("},
		{"main", "= writeGoTemplate(", "= vstubWriteGoTemplate("},
		{"", "yaml.Marshal(", "vstubYAMLMarshal("},
		{"hashBinary", "os.Open(", "vstubOpen("},
		{"hashBinary", "f.Close()", "vstubFileClose(f)"},
		{"hashBinary", "io.Copy(", "vstubCopy("},
		{"hashBinary", "sha256.New()", "vstubSha256New()"},
		{"hashBinary", "bufio.NewReader(", "vstubNewReader("},
		{"doObjdump", "= cachedDumpFile(", "= vstubCachedDumpFile("},
		{"doObjdump", "os.Open(", "vstubOpen("},
		{"doObjdump", "f.Read(", "vstubFileRead(f, "},
		{"doObjdump", "f.Close()", "vstubFileClose(f)"},
		{"doObjdump", "f.Sync()", "vstubFileSync(f)"},
		{"doObjdump", "f.Name()", "vstubFileName(f)"},
		{"doObjdump", "os.CreateTemp(", "vstubCreateTemp("},
		{"doObjdump", "os.Create(", "vstubCreate("},
		{"doObjdump", "os.Rename(", "vstubRename("},
		{"doObjdump", "os.Remove(", "vstubRemove("},
		{"doObjdump", "bufio.NewWriter(", "vstubNewWriter("},
		{"doObjdump", "out.WriteString(", "vstubWriteString(out, "},
		{"doObjdump", "out.Flush()", "vstubFlush(out)"},
		{"doObjdump", "exec.Command(", "vstubCommand("},
		{"doObjdump", "cmd.Run()", "vstubCmdRun(cmd)"},
	},
}

// funcRegion returns the byte range of the top-level function name in src.
func funcRegion(src, name string) (int, int) {
	i := strings.Index(src, "\nfunc "+name+"(")
	if i < 0 {
		return -1, -1
	}
	j := strings.Index(src[i+1:], "\nfunc ")
	if j < 0 {
		return i, len(src)
	}
	return i, i + 1 + j
}

// RewriteBoundary is the mechanical source rewrite used for native replays.
func RewriteBoundary(dir, src string) string {
	for _, r := range append(append([]rewrite{}, boundaryRewrites[dir]...), ambientRewrites...) {
		if r.scope == "" {
			src = strings.ReplaceAll(src, r.from, r.to)
			continue
		}
		a, b := funcRegion(src, r.scope)
		if a < 0 {
			continue
		}
		src = src[:a] + strings.ReplaceAll(src[a:b], r.from, r.to) + src[b:]
	}
	return fixUnusedImports(src)
}

// fixUnusedImports: an import whose last use was rewritten away becomes a blank import.
func fixUnusedImports(src string) string {
	lines := strings.Split(src, "\n")
	inImports := false
	for i, l := range lines {
		t := strings.TrimSpace(l)
		if strings.HasPrefix(t, "import (") {
			inImports = true
			continue
		}
		if inImports && t == ")" {
			inImports = false
			continue
		}
		if !inImports || !strings.Contains(t, "\"") {
			continue
		}
		f := strings.Fields(t)
		path := strings.Trim(f[len(f)-1], "\"")
		name := path[strings.LastIndex(path, "/")+1:]
		if strings.HasPrefix(name, "go-") {
			name = name[3:] // github.com/elastic/go-ucfg is package ucfg
		}
		if len(f) == 2 {
			name = f[0]
		}
		if name == "_" || name == "." {
			continue
		}
		if strings.HasSuffix(path, ".v2") && len(f) == 1 {
			name = "yaml"
		}
		used := false
		re := regexp.MustCompile(`(^|[^A-Za-z0-9_.])` + regexp.QuoteMeta(name) + `\.[A-Za-z_]`)
		for _, rl := range lines[i+1:] {
			if k := strings.Index(rl, "//"); k >= 0 {
				rl = rl[:k]
			}
			if re.MatchString(rl) {
				used = true
				break
			}
		}
		if !used {
			lines[i] = "\t_ \"" + path + "\""
		}
	}
	return strings.Join(lines, "\n")
}

const replayTestSrc = `package PKGNAME

import (
	"fmt"
	"os"
	"strings"
	"testing"
)

func TestVerifKernel(t *testing.T) {
	vKernelHook()
}

func TestVerifReplay(t *testing.T) {
	for _, p := range strings.Split(os.Getenv("VERIF_REPLAY"), ":") {
		if p == "" {
			continue
		}
		fmt.Println("VERIF-BEGIN " + p)
		vReplayMain(p)
	}
}
`

func NewSession(cfg Config, dirs []string, patterns ...string) (*Session, error) {
	if cfg.Workers <= 0 {
		cfg.Workers = 8
	}
	if len(cfg.Solvers) == 0 {
		cfg.Solvers = []string{"z3new", "cvc5", "z3"}
	}
	ov, err := BuildOverlay(cfg.RepoDir, cfg.VerifDir, false, dirs...)
	if err != nil {
		return nil, err
	}
	t0 := time.Now()
	l, err := gosym.Load(cfg.RepoDir, ov, cfg.GOOS, cfg.GOARCH, patterns...)
	if err != nil {
		return nil, err
	}
	s := &Session{Cfg: cfg, L: l, Overlay: ov, LoadS: time.Since(t0).Seconds()}
	return s, nil
}

type Worker struct {
	S    *Session
	In   *gosym.Interp
	Pool *sym.Pool
	Bank *sym.Bank
	mark sym.BankMark
}

// InitOrder lists the packages whose initialisers are interpreted, in
// dependency order.
var InitOrder = []string{
	Module + "/internal/unix",
	Module + "/arch",
	"golang.org/x/net/bpf",
	Module,
	Module + "/cmd/seccomp-profiler/disasm",
	Module + "/cmd/sandbox",
	Module + "/cmd/seccomp-profiler",
}

func (s *Session) NewWorker() (*Worker, error) {
	bank := sym.NewBank()
	pool, err := sym.NewPool(bank, s.Cfg.Solvers...)
	if err != nil {
		return nil, err
	}
	in := gosym.NewInterp(s.L.Prog, bank, pool)
	if s.Cfg.GOARCH != "" {
		in.GOARCH = s.Cfg.GOARCH
	}
	if s.Cfg.GOOS != "" {
		in.GOOS = s.Cfg.GOOS
	}
	switch in.GOARCH {
	case "386", "arm", "mips", "mipsle", "wasm":
		in.WordBits = 32
		if in.GOARCH == "wasm" {
			in.WordBits = 64
		}
	}
	var pkgs []*ssa.Package
	for _, p := range InitOrder {
		if sp, ok := s.L.ByPath[p]; ok {
			in.InterpPkgs[p] = true
			pkgs = append(pkgs, sp)
		}
	}
	// pure library packages without package state that is not a plain table: interpreted when a change
	// brings them in (generic helpers of slices/maps/cmp, the non-reflective part of sort, math/bits)
	for _, p := range []string{"math/bits", "cmp", "slices", "maps", "sort"} {
		if sp, ok := s.L.ByPath[p]; ok {
			in.InterpPkgs[p] = true
			if p == "math/bits" {
				pkgs = append([]*ssa.Package{sp}, pkgs...)
			}
		}
	}
	in.SkipInit[Module+".init#1"] = true // host byte-order probe through unsafe; harnesses set nativeEndian
	ConfigureStubs(in)
	if err := in.InitPackages(pkgs); err != nil {
		pool.Close()
		return nil, err
	}
	w := &Worker{S: s, In: in, Pool: pool, Bank: bank}
	w.mark = bank.Mark()
	return w, nil
}

func (w *Worker) Close() { w.Pool.Close() }

type Job struct {
	ID          string                 `json:"id"`
	Property    string                 `json:"property"`
	Pkg         string                 `json:"pkg"`
	Harness     string                 `json:"harness"`
	Params      map[string]interface{} `json:"params"`
	MapOrder    string                 `json:"map_order,omitempty"`
	Values      map[string]uint64      `json:"-"`              // nondet names fixed to concrete values (selftest)
	Weight      int                    `json:"-"`              // scheduling hint: heavier jobs start first
	MaxPaths    int                    `json:"-"`              // path budget (0 = default 4096)
	Race        bool                   `json:"race,omitempty"` // native replay under the race detector
	Open        []string               `json:"-"`
	CoverModels bool                   `json:"-"`
}

type JobResult struct {
	Job          Job
	Paths        int
	PathKinds    map[string]int
	Asserts      map[string]int
	Trivial      map[string]int
	Covers       map[string]int
	CoverModels  map[string]map[string]string
	Violations   []ViolationOut
	Obs          []map[string]string // observations of each completed path (concrete ones only)
	Inconclusive []string
	FuncInstrs   map[string]int
	FuncSym      map[string]bool
	FuncHarness  map[string]bool
	Stubs        map[string]int
	Terms        int
	WallS        float64
	Err          string
}

type ViolationOut struct {
	Tag     string            `json:"tag"`
	Known   string            `json:"known,omitempty"`
	Values  map[string]string `json:"values"`
	Choices map[string]int    `json:"choices,omitempty"`
	PathNotes []string        `json:"notes,omitempty"`
	Obs     map[string]string `json:"obs,omitempty"`
	Where   string            `json:"where,omitempty"`
}

func (w *Worker) RunJob(job Job) (res *JobResult) {
	t0 := time.Now()
	res = &JobResult{Job: job}
	defer func() {
		if r := recover(); r != nil {
			res.Err = fmt.Sprintf("engine panic: %v", r)
			// the solver processes may be out of sync; restart them
			for _, p := range w.Pool.Procs {
				p.Close()
			}
		}
		res.WallS = time.Since(t0).Seconds()
	}()
	w.Bank.Rollback(w.mark)
	w.Pool.Reset(w.Bank)
	// heavy instances (hundreds of conditions) get more solver time: they run while all other
	// workers keep the cores busy
	w.Pool.DecideTimeout = 60 * time.Second
	if job.Weight >= 300 {
		// (a 70-list shape was left undecided at 60 s once, on a machine loaded six times over)
		w.Pool.DecideTimeout = 180 * time.Second
	}
	if job.Weight >= 1000 {
		w.Pool.DecideTimeout = 420 * time.Second
	}
	in := w.In
	in.ResetInstance()
	in.Params = job.Params
	in.Concrete = job.Values
	in.MapOrder = "asc"
	if job.MapOrder != "" {
		in.MapOrder = job.MapOrder
	}
	in.OpenKnown = map[string]bool{}
	for _, id := range job.Open {
		in.OpenKnown[id] = true
	}
	in.WantCoverModels = job.CoverModels
	in.Deadline = time.Now().Add(20 * time.Minute)
	if w.S.Cfg.Tier == "thorough" {
		in.Deadline = time.Now().Add(3 * time.Hour)
	}
	in.MaxPaths = 4096
	if job.MaxPaths > 0 {
		in.MaxPaths = job.MaxPaths
	}
	pkg := w.S.L.ByPath[job.Pkg]
	if pkg == nil {
		res.Err = "package not loaded: " + job.Pkg
		return
	}
	in.HarnessPkg = pkg
	fn := pkg.Func(job.Harness)
	if fn == nil {
		res.Err = "harness not found: " + job.Harness
		return
	}
	in.RunAll(fn)
	res.Paths = in.Paths
	res.PathKinds = in.PathKinds
	res.Asserts = in.Asserts
	res.Trivial = in.Trivial
	res.Covers = in.Covers
	res.Inconclusive = in.Inconclusive
	res.FuncInstrs = in.FuncInstrs
	res.FuncSym = in.FuncSym
	res.FuncHarness = in.FuncHarness
	res.Stubs = in.Stubs
	res.Terms = w.Bank.Size()
	res.Obs = in.PathObs
	res.CoverModels = map[string]map[string]string{}
	for tag, m := range in.CoverModel {
		res.CoverModels[tag] = in.ModelValues(m)
	}
	for _, v := range in.Violations {
		vo := ViolationOut{Tag: v.Tag, Known: v.Known, Values: in.ModelValues(v.Model), Obs: v.Obs, Where: v.Where, Choices: map[string]int{}}
		for _, n := range v.Notes {
			if i := strings.Index(n, "="); i > 0 && !strings.HasPrefix(n, "panic") {
				var k int
				fmt.Sscanf(n[i+1:], "%d", &k)
				vo.Choices[n[:i]] = k
			}
			if strings.HasPrefix(n, "panic") || strings.HasPrefix(n, "no termination") {
				vo.PathNotes = append(vo.PathNotes, n)
			}
		}
		res.Violations = append(res.Violations, vo)
	}
	if len(w.Pool.Disagreements) > 0 {
		res.Inconclusive = append(res.Inconclusive, "solver disagreement: "+strings.Join(w.Pool.Disagreements, ", "))
		w.Pool.Disagreements = nil
	}
	return res
}

// RunJobs runs the jobs on a pool of workers and returns results in job order.
func (s *Session) RunJobs(jobs []Job, progress func(done, total int)) ([]*JobResult, *SolverStats, error) {
	sort.SliceStable(jobs, func(i, j int) bool { return jobs[i].Weight > jobs[j].Weight })
	n := s.Cfg.Workers
	if n > len(jobs) {
		n = len(jobs)
	}
	if n < 1 {
		n = 1
	}
	results := make([]*JobResult, len(jobs))
	var mu sync.Mutex
	next := 0
	done := 0
	var firstErr error
	stats := &SolverStats{By: map[string]*ProcStats{}}
	var wg sync.WaitGroup
	for i := 0; i < n; i++ {
		wg.Add(1)
		go func() {
			defer wg.Done()
			w, err := s.NewWorker()
			if err != nil {
				mu.Lock()
				if firstErr == nil {
					firstErr = err
				}
				mu.Unlock()
				return
			}
			defer w.Close()
			for {
				mu.Lock()
				if next >= len(jobs) {
					mu.Unlock()
					break
				}
				k := next
				next++
				mu.Unlock()
				r := w.RunJob(jobs[k])
				mu.Lock()
				results[k] = r
				done++
				if progress != nil {
					progress(done, len(jobs))
				}
				mu.Unlock()
			}
			mu.Lock()
			stats.add(w.Pool)
			mu.Unlock()
		}()
	}
	wg.Wait()
	if firstErr != nil {
		return nil, nil, firstErr
	}
	return results, stats, nil
}

type ProcStats struct {
	Queries, Sat, Unsat, Unknown, Errors int
	WallS                                float64
	LastErr                              string
}

type SolverStats struct {
	By            map[string]*ProcStats
	Decided       int
	CrossChecked  int
	DecidedByOne  int
	Inconclusive  int
	Fallbacks     int
	StringQueries int
	StringS       float64
}

func (st *SolverStats) add(pl *sym.Pool) {
	for _, p := range pl.Procs {
		ps := st.By[p.Name]
		if ps == nil {
			ps = &ProcStats{}
			st.By[p.Name] = ps
		}
		ps.Queries += p.Queries
		ps.Sat += p.Sats
		ps.Unsat += p.Unsats
		ps.Unknown += p.Unknowns
		ps.Errors += p.Errors
		ps.WallS += p.Wall.Seconds()
		if p.LastErr != "" {
			ps.LastErr = p.LastErr
		}
	}
	st.StringQueries += pl.StringQueries
	st.StringS += pl.StringWall.Seconds()
	st.Decided += pl.Decided
	st.CrossChecked += pl.CrossChecked
	st.DecidedByOne += pl.DecidedByOne
	st.Inconclusive += pl.Inconclusive
	st.Fallbacks += pl.Fallbacks
}

// ---------------------------------------------------------------------------
// Replay files and native replay

type ReplayFile struct {
	Property string                 `json:"property"`
	Harness  string                 `json:"harness"`
	Pkg      string                 `json:"pkg"`
	Params   map[string]interface{} `json:"params"`
	Values   map[string]string      `json:"values"`
	Choices  map[string]int         `json:"choices,omitempty"`
	MapOrder string                 `json:"map_order,omitempty"`
	Race     bool                   `json:"race,omitempty"`
	Expect   struct {
		Tag   string            `json:"tag"`
		Known string            `json:"known,omitempty"`
		Obs   map[string]string `json:"obs,omitempty"`
	} `json:"expect"`
	What string `json:"what,omitempty"`
}

func WriteReplay(dir string, job Job, v ViolationOut) (string, error) {
	rf := ReplayFile{Property: job.Property, Harness: job.Harness, Pkg: job.Pkg, Params: job.Params, Values: v.Values, Choices: v.Choices, MapOrder: job.MapOrder, Race: job.Race}
	rf.Expect.Tag = v.Tag
	rf.Expect.Known = v.Known
	rf.Expect.Obs = v.Obs
	b, _ := json.MarshalIndent(rf, "", " ")
	if err := os.MkdirAll(dir, 0o755); err != nil {
		return "", err
	}
	name := fmt.Sprintf("%s-%s-%08x.json", job.Harness, sanitize(v.Tag), hash32(b))
	p := filepath.Join(dir, name)
	return p, os.WriteFile(p, b, 0o644)
}

func sanitize(s string) string {
	return strings.Map(func(r rune) rune {
		if r == '/' || r == ' ' || r == '@' {
			return '_'
		}
		return r
	}, s)
}

func hash32(b []byte) uint32 {
	h := uint32(2166136261)
	for _, c := range b {
		h ^= uint32(c)
		h *= 16777619
	}
	return h
}

// NativeResult is what the natively compiled harness reported for one file.
type NativeResult struct {
	Fails  []string
	Obs    map[string]string
	Covers []string
	Panic  string
	Assume bool
	Done   bool
	Error  string
}

// Replayer builds the native test binary of one harness package once and runs
// replay files through it.
type Replayer struct {
	repoDir, verifDir string
	tmp               string
	bins              map[string]string
	BuildS            float64
	mu                sync.Mutex
}

func NewReplayer(repoDir, verifDir string) (*Replayer, error) {
	tmp, err := os.MkdirTemp("", "verif-replay-")
	if err != nil {
		return nil, err
	}
	return &Replayer{repoDir: repoDir, verifDir: verifDir, tmp: tmp, bins: map[string]string{}}, nil
}

func (r *Replayer) Close() { os.RemoveAll(r.tmp) }

func dirOfPkg(pkg string) string {
	for d, p := range harnessDirs {
		if p == pkg {
			return d
		}
	}
	return ""
}

func (r *Replayer) binFor(pkg string, race bool) (string, error) {
	r.mu.Lock()
	defer r.mu.Unlock()
	key := pkg
	if race {
		key += "+race"
	}
	if b, ok := r.bins[key]; ok {
		return b, nil
	}
	d := dirOfPkg(pkg)
	if d == "" {
		return "", fmt.Errorf("no harness directory for %s", pkg)
	}
	t0 := time.Now()
	ov, err := BuildOverlay(r.repoDir, r.verifDir, true, append([]string{d}, nativeDeps[d]...)...)
	if err != nil {
		return "", err
	}
	// go build -overlay wants real files for the replacement contents
	rep := map[string]string{}
	i := 0
	for virt, content := range ov {
		i++
		real := filepath.Join(r.tmp, fmt.Sprintf("ov%d_%s_%s", i, sanitize(d), filepath.Base(virt)))
		if err := os.WriteFile(real, content, 0o644); err != nil {
			return "", err
		}
		rep[virt] = real
	}
	ovj, _ := json.Marshal(map[string]interface{}{"Replace": rep})
	ovPath := filepath.Join(r.tmp, "overlay_"+sanitize(d)+".json")
	if err := os.WriteFile(ovPath, ovj, 0o644); err != nil {
		return "", err
	}
	bin := filepath.Join(r.tmp, "replay_"+sanitize(d)+".test")
	if race {
		bin += ".race"
	}
	pd := "."
	if d != "root" {
		pd = "./" + d
	}
	args := []string{"test", "-c", "-vet=off", "-overlay", ovPath, "-o", bin}
	if race {
		args = append(args, "-race")
	}
	cmd := exec.Command("go", append(args, pd)...)
	cmd.Dir = r.repoDir
	cmd.Env = append(os.Environ(), "GOFLAGS=-mod=mod", "GOPROXY=off", "GOSUMDB=off", "GOTOOLCHAIN=local")
	out, err := cmd.CombinedOutput()
	if err != nil {
		return "", fmt.Errorf("native harness build failed: %v\n%s", err, out)
	}
	r.BuildS += time.Since(t0).Seconds()
	r.bins[key] = bin
	return bin, nil
}

// BinFor exposes the native test binary of a harness package.
func (r *Replayer) BinFor(pkg string) (string, error) { return r.binFor(pkg, false) }

// Run replays the files (all of the same package) natively.
func (r *Replayer) Run(pkg string, files []string, env ...string) (map[string]*NativeResult, error) {
	res := map[string]*NativeResult{}
	// one process per file: a harness may leave process-wide state behind
	for _, f := range files {
		race := false
		if b, err := os.ReadFile(f); err == nil {
			var rf ReplayFile
			if json.Unmarshal(b, &rf) == nil {
				race = rf.Race
			}
		}
		bin, err := r.binFor(pkg, race)
		if err != nil {
			return nil, err
		}
		cmd := exec.Command(bin, "-test.run", "^TestVerifReplay$", "-test.v", "-test.timeout", "120s")
		cmd.Dir = r.tmp
		cmd.Env = append(append(os.Environ(), "VERIF_REPLAY="+f), env...)
		out, _ := cmd.CombinedOutput()
		nr := &NativeResult{Obs: map[string]string{}}
		for _, l := range strings.Split(string(out), "\n") {
			l = strings.TrimSpace(l)
			switch {
			case strings.HasPrefix(l, "VERIF-FAIL "):
				nr.Fails = append(nr.Fails, strings.TrimPrefix(l, "VERIF-FAIL "))
			case strings.HasPrefix(l, "VERIF-OBS "):
				kv := strings.TrimPrefix(l, "VERIF-OBS ")
				if i := strings.Index(kv, "="); i > 0 {
					nr.Obs[kv[:i]] = kv[i+1:]
				}
			case strings.HasPrefix(l, "VERIF-COVER "):
				nr.Covers = append(nr.Covers, strings.TrimPrefix(l, "VERIF-COVER "))
			case strings.HasPrefix(l, "VERIF-PANIC "):
				nr.Panic = strings.TrimPrefix(l, "VERIF-PANIC ")
			case l == "VERIF-ASSUME-FAILED":
				nr.Assume = true
			case l == "VERIF-DONE":
				nr.Done = true
			case strings.HasPrefix(l, "VERIF-ERROR "):
				nr.Error = strings.TrimPrefix(l, "VERIF-ERROR ")
			case strings.Contains(l, "WARNING: DATA RACE") || strings.Contains(l, "fatal error: concurrent map"):
				if !nr.Failed("C13.race") {
					nr.Fails = append(nr.Fails, "C13.race")
				}
				nr.Done = true
			}
		}
		if !nr.Done && nr.Error == "" && !nr.Assume {
			nr.Error = "native replay did not finish: " + lastLines(string(out), 6)
		}
		res[f] = nr
	}
	return res, nil
}

func lastLines(s string, n int) string {
	ls := strings.Split(strings.TrimSpace(s), "\n")
	if len(ls) > n {
		ls = ls[len(ls)-n:]
	}
	return strings.Join(ls, " | ")
}

func (nr *NativeResult) Failed(tag string) bool {
	for _, f := range nr.Fails {
		if f == tag {
			return true
		}
	}
	return false
}

func SortedStrings(m map[string]bool) []string {
	var out []string
	for k := range m {
		out = append(out, k)
	}
	sort.Strings(out)
	return out
}
