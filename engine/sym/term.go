// Package sym: hash-consed SMT terms (bit-vectors, booleans, strings, regular
// languages) with constant folding and SMT-LIB2 printing.
package sym

import (
	"fmt"
	"sort"
	"strconv"
	"strings"
)

type SortKind uint8

const (
	SBool SortKind = iota
	SBV
	SString
	SRegLan
	SInt
)

type Sort struct {
	K SortKind
	W int
}

func BVSort(w int) Sort { return Sort{SBV, w} }

var BoolSort = Sort{SBool, 0}
var StringSort = Sort{SString, 0}
var RegLanSort = Sort{SRegLan, 0}

func (s Sort) String() string {
	switch s.K {
	case SBool:
		return "Bool"
	case SBV:
		return fmt.Sprintf("(_ BitVec %d)", s.W)
	case SString:
		return "String"
	case SRegLan:
		return "RegLan"
	case SInt:
		return "Int"
	}
	return "?"
}

// Term is an immutable hash-consed node.
type Term struct {
	ID    int
	Op    string // "const", "var", smt operator name, "extract", "zext", "sext", "uf:<name>", "strconst"
	Args  []*Term
	S     Sort
	C     uint64 // constant value (bool: 0/1; bv: value masked)
	Str   string // var name / string constant / uf name
	P1    int    // extract hi / extension amount / loop lo
	P2    int    // extract lo / loop hi
	IsVar bool
	key   string
}

func (t *Term) IsConst() bool { return t.Op == "const" }
func (t *Term) IsTrue() bool  { return t.Op == "const" && t.S.K == SBool && t.C == 1 }
func (t *Term) IsFalse() bool { return t.Op == "const" && t.S.K == SBool && t.C == 0 }

// Bank owns the terms of one harness instance.
type Bank struct {
	tab   map[string]*Term
	all   []*Term
	Vars  []*Term
	UFs   map[string][]Sort // name -> arg sorts + result sort (last)
	varBy map[string]*Term
}

func NewBank() *Bank {
	return &Bank{tab: map[string]*Term{}, UFs: map[string][]Sort{}, varBy: map[string]*Term{}}
}

func (b *Bank) Size() int { return len(b.all) }

// Mark returns a checkpoint; Rollback forgets every term, variable and UF
// created after it (terms created before stay valid).
type BankMark struct {
	n, nvars int
	ufs      map[string]bool
}

func (b *Bank) Mark() BankMark {
	m := BankMark{n: len(b.all), nvars: len(b.Vars), ufs: map[string]bool{}}
	for k := range b.UFs {
		m.ufs[k] = true
	}
	return m
}

func (b *Bank) Rollback(m BankMark) {
	for _, t := range b.all[m.n:] {
		delete(b.tab, t.key)
	}
	b.all = b.all[:m.n]
	for _, v := range b.Vars[m.nvars:] {
		delete(b.varBy, v.Str)
	}
	b.Vars = b.Vars[:m.nvars]
	for k := range b.UFs {
		if !m.ufs[k] {
			delete(b.UFs, k)
		}
	}
}

func mask(w int) uint64 {
	if w >= 64 {
		return ^uint64(0)
	}
	return (uint64(1) << uint(w)) - 1
}

func (b *Bank) mk(op string, s Sort, c uint64, str string, p1, p2 int, args ...*Term) *Term {
	var sb strings.Builder
	sb.WriteString(op)
	sb.WriteByte('|')
	sb.WriteString(strconv.Itoa(int(s.K)))
	sb.WriteByte(':')
	sb.WriteString(strconv.Itoa(s.W))
	sb.WriteByte('|')
	sb.WriteString(strconv.FormatUint(c, 16))
	sb.WriteByte('|')
	sb.WriteString(str)
	sb.WriteByte('|')
	sb.WriteString(strconv.Itoa(p1))
	sb.WriteByte(',')
	sb.WriteString(strconv.Itoa(p2))
	for _, a := range args {
		sb.WriteByte(' ')
		sb.WriteString(strconv.Itoa(a.ID))
	}
	k := sb.String()
	if t, ok := b.tab[k]; ok {
		return t
	}
	t := &Term{ID: len(b.all), Op: op, Args: append([]*Term(nil), args...), S: s, C: c, Str: str, P1: p1, P2: p2, key: k}
	b.tab[k] = t
	b.all = append(b.all, t)
	return t
}

func (b *Bank) Const(w int, v uint64) *Term { return b.mk("const", BVSort(w), v&mask(w), "", 0, 0) }
func (b *Bank) Bool(v bool) *Term {
	c := uint64(0)
	if v {
		c = 1
	}
	return b.mk("const", BoolSort, c, "", 0, 0)
}
func (b *Bank) True() *Term  { return b.Bool(true) }
func (b *Bank) False() *Term { return b.Bool(false) }

// Var returns the variable with the given name, creating it if needed.
func (b *Bank) Var(name string, s Sort) *Term {
	if t, ok := b.varBy[name]; ok {
		if t.S != s {
			panic("sym: variable " + name + " redeclared with another sort")
		}
		return t
	}
	t := b.mk("var", s, 0, name, 0, 0)
	t.IsVar = true
	b.varBy[name] = t
	b.Vars = append(b.Vars, t)
	return t
}

func (b *Bank) LookupVar(name string) *Term { return b.varBy[name] }

func signExt(v uint64, w int) int64 {
	if w >= 64 {
		return int64(v)
	}
	sh := uint(64 - w)
	return int64(v<<sh) >> sh
}

// ---- booleans ----

func (b *Bank) Not(x *Term) *Term {
	if x.IsConst() {
		return b.Bool(x.C == 0)
	}
	if x.Op == "not" {
		return x.Args[0]
	}
	return b.mk("not", BoolSort, 0, "", 0, 0, x)
}

func (b *Bank) And(xs ...*Term) *Term {
	var out []*Term
	seen := map[int]bool{}
	for _, x := range xs {
		if x.IsFalse() {
			return b.False()
		}
		if x.IsTrue() || seen[x.ID] {
			continue
		}
		if x.Op == "and" {
			for _, y := range x.Args {
				if !seen[y.ID] {
					seen[y.ID] = true
					out = append(out, y)
				}
			}
			continue
		}
		seen[x.ID] = true
		out = append(out, x)
	}
	for _, x := range out {
		if x.Op == "not" && seen[x.Args[0].ID] {
			return b.False()
		}
	}
	if len(out) == 0 {
		return b.True()
	}
	if len(out) == 1 {
		return out[0]
	}
	return b.mk("and", BoolSort, 0, "", 0, 0, out...)
}

func (b *Bank) Or(xs ...*Term) *Term {
	var out []*Term
	seen := map[int]bool{}
	for _, x := range xs {
		if x.IsTrue() {
			return b.True()
		}
		if x.IsFalse() || seen[x.ID] {
			continue
		}
		if x.Op == "or" {
			for _, y := range x.Args {
				if !seen[y.ID] {
					seen[y.ID] = true
					out = append(out, y)
				}
			}
			continue
		}
		seen[x.ID] = true
		out = append(out, x)
	}
	for _, x := range out {
		if x.Op == "not" && seen[x.Args[0].ID] {
			return b.True()
		}
	}
	if len(out) == 0 {
		return b.False()
	}
	if len(out) == 1 {
		return out[0]
	}
	return b.mk("or", BoolSort, 0, "", 0, 0, out...)
}

func (b *Bank) Implies(x, y *Term) *Term { return b.Or(b.Not(x), y) }

func (b *Bank) Ite(c, x, y *Term) *Term {
	if c.IsConst() {
		if c.C == 1 {
			return x
		}
		return y
	}
	if x == y {
		return x
	}
	if x.S != y.S {
		panic(fmt.Sprintf("sym: ite sorts differ: %v %v", x.S, y.S))
	}
	if x.S.K == SBool {
		if x.IsTrue() && y.IsFalse() {
			return c
		}
		if x.IsFalse() && y.IsTrue() {
			return b.Not(c)
		}
		if x.IsTrue() {
			return b.Or(c, y)
		}
		if x.IsFalse() {
			return b.And(b.Not(c), y)
		}
		if y.IsTrue() {
			return b.Or(b.Not(c), x)
		}
		if y.IsFalse() {
			return b.And(c, x)
		}
	}
	if c.Op == "not" {
		return b.Ite(c.Args[0], y, x)
	}
	return b.mk("ite", x.S, 0, "", 0, 0, c, x, y)
}

func (b *Bank) Eq(x, y *Term) *Term {
	if x.S != y.S {
		panic(fmt.Sprintf("sym: eq sorts differ: %v %v", x.S, y.S))
	}
	if x == y {
		return b.True()
	}
	if x.IsConst() && y.IsConst() {
		return b.Bool(x.C == y.C)
	}
	if x.Op == "strconst" && y.Op == "strconst" {
		return b.Bool(x.Str == y.Str)
	}
	if x.S.K == SBool {
		if x.IsConst() {
			x, y = y, x
		}
		if y.IsTrue() {
			return x
		}
		if y.IsFalse() {
			return b.Not(x)
		}
	}
	if x.ID > y.ID {
		x, y = y, x
	}
	// (ite c k1 k2) == k  with constants folds to c / !c / false
	for i := 0; i < 2; i++ {
		if x.Op == "ite" && y.IsConst() && x.Args[1].IsConst() && x.Args[2].IsConst() {
			a, bb := x.Args[1].C == y.C, x.Args[2].C == y.C
			switch {
			case a && bb:
				return b.True()
			case a:
				return x.Args[0]
			case bb:
				return b.Not(x.Args[0])
			default:
				return b.False()
			}
		}
		x, y = y, x
	}
	return b.mk("=", BoolSort, 0, "", 0, 0, x, y)
}

// ---- bit-vectors ----

func (b *Bank) bin(op string, x, y *Term) *Term {
	if x.S != y.S || x.S.K != SBV {
		panic(fmt.Sprintf("sym: %s sorts: %v %v", op, x.S, y.S))
	}
	w := x.S.W
	if x.IsConst() && y.IsConst() {
		a, c := x.C, y.C
		var r uint64
		switch op {
		case "bvadd":
			r = a + c
		case "bvsub":
			r = a - c
		case "bvmul":
			r = a * c
		case "bvand":
			r = a & c
		case "bvor":
			r = a | c
		case "bvxor":
			r = a ^ c
		case "bvshl":
			if c >= uint64(w) {
				r = 0
			} else {
				r = a << c
			}
		case "bvlshr":
			if c >= uint64(w) {
				r = 0
			} else {
				r = a >> c
			}
		case "bvashr":
			s := signExt(a, w)
			if c >= uint64(w) {
				c = uint64(w - 1)
			}
			r = uint64(s >> c)
		case "bvudiv":
			if c == 0 {
				r = mask(w)
			} else {
				r = a / c
			}
		case "bvurem":
			if c == 0 {
				r = a
			} else {
				r = a % c
			}
		case "bvsdiv":
			sa, sc := signExt(a, w), signExt(c, w)
			if sc == 0 {
				if sa >= 0 {
					r = mask(w)
				} else {
					r = 1
				}
			} else if sc == -1 {
				r = uint64(-sa)
			} else {
				r = uint64(sa / sc)
			}
		case "bvsrem":
			sa, sc := signExt(a, w), signExt(c, w)
			if sc == 0 {
				r = a
			} else if sc == -1 {
				r = 0
			} else {
				r = uint64(sa % sc)
			}
		default:
			panic("sym: bin " + op)
		}
		return b.Const(w, r)
	}
	// light identities
	switch op {
	case "bvadd", "bvor", "bvxor":
		if x.IsConst() && x.C == 0 {
			return y
		}
		if y.IsConst() && y.C == 0 {
			return x
		}
	case "bvsub", "bvshl", "bvlshr", "bvashr":
		if y.IsConst() && y.C == 0 {
			return x
		}
	case "bvand":
		if (x.IsConst() && x.C == 0) || (y.IsConst() && y.C == 0) {
			return b.Const(w, 0)
		}
		if x.IsConst() && x.C == mask(w) {
			return y
		}
		if y.IsConst() && y.C == mask(w) {
			return x
		}
	case "bvmul":
		if x.IsConst() && x.C == 1 {
			return y
		}
		if y.IsConst() && y.C == 1 {
			return x
		}
		if (x.IsConst() && x.C == 0) || (y.IsConst() && y.C == 0) {
			return b.Const(w, 0)
		}
	}
	if (op == "bvor" || op == "bvand") && x == y {
		return x
	}
	return b.mk(op, x.S, 0, "", 0, 0, x, y)
}

func (b *Bank) Add(x, y *Term) *Term  { return b.bin("bvadd", x, y) }
func (b *Bank) Sub(x, y *Term) *Term  { return b.bin("bvsub", x, y) }
func (b *Bank) Mul(x, y *Term) *Term  { return b.bin("bvmul", x, y) }
func (b *Bank) BAnd(x, y *Term) *Term { return b.bin("bvand", x, y) }
func (b *Bank) BOr(x, y *Term) *Term  { return b.bin("bvor", x, y) }
func (b *Bank) BXor(x, y *Term) *Term { return b.bin("bvxor", x, y) }
func (b *Bank) Shl(x, y *Term) *Term  { return b.bin("bvshl", x, y) }
func (b *Bank) LShr(x, y *Term) *Term { return b.bin("bvlshr", x, y) }
func (b *Bank) AShr(x, y *Term) *Term { return b.bin("bvashr", x, y) }
func (b *Bank) UDiv(x, y *Term) *Term { return b.bin("bvudiv", x, y) }
func (b *Bank) URem(x, y *Term) *Term { return b.bin("bvurem", x, y) }
func (b *Bank) SDiv(x, y *Term) *Term { return b.bin("bvsdiv", x, y) }
func (b *Bank) SRem(x, y *Term) *Term { return b.bin("bvsrem", x, y) }

func (b *Bank) BNot(x *Term) *Term {
	if x.IsConst() {
		return b.Const(x.S.W, ^x.C)
	}
	return b.mk("bvnot", x.S, 0, "", 0, 0, x)
}
func (b *Bank) Neg(x *Term) *Term {
	if x.IsConst() {
		return b.Const(x.S.W, -x.C)
	}
	return b.mk("bvneg", x.S, 0, "", 0, 0, x)
}

func (b *Bank) cmp(op string, x, y *Term) *Term {
	if x.S != y.S || x.S.K != SBV {
		panic(fmt.Sprintf("sym: %s sorts: %v %v", op, x.S, y.S))
	}
	w := x.S.W
	if x.IsConst() && y.IsConst() {
		var r bool
		switch op {
		case "bvult":
			r = x.C < y.C
		case "bvule":
			r = x.C <= y.C
		case "bvslt":
			r = signExt(x.C, w) < signExt(y.C, w)
		case "bvsle":
			r = signExt(x.C, w) <= signExt(y.C, w)
		}
		return b.Bool(r)
	}
	if x == y {
		return b.Bool(op == "bvule" || op == "bvsle")
	}
	if op == "bvult" && y.IsConst() && y.C == 0 {
		return b.False()
	}
	if op == "bvule" && x.IsConst() && x.C == 0 {
		return b.True()
	}
	return b.mk(op, BoolSort, 0, "", 0, 0, x, y)
}

func (b *Bank) ULt(x, y *Term) *Term { return b.cmp("bvult", x, y) }
func (b *Bank) ULe(x, y *Term) *Term { return b.cmp("bvule", x, y) }
func (b *Bank) SLt(x, y *Term) *Term { return b.cmp("bvslt", x, y) }
func (b *Bank) SLe(x, y *Term) *Term { return b.cmp("bvsle", x, y) }

func (b *Bank) Extract(hi, lo int, x *Term) *Term {
	w := hi - lo + 1
	if lo == 0 && w == x.S.W {
		return x
	}
	if x.IsConst() {
		return b.Const(w, x.C>>uint(lo))
	}
	if x.Op == "zext" || x.Op == "sext" {
		in := x.Args[0]
		if hi < in.S.W {
			return b.Extract(hi, lo, in)
		}
	}
	if x.Op == "concat" {
		lw := x.Args[1].S.W
		if hi < lw {
			return b.Extract(hi, lo, x.Args[1])
		}
		if lo >= lw {
			return b.Extract(hi-lw, lo-lw, x.Args[0])
		}
	}
	if x.Op == "extract" {
		return b.Extract(hi+x.P2, lo+x.P2, x.Args[0])
	}
	return b.mk("extract", BVSort(w), 0, "", hi, lo, x)
}

func (b *Bank) ZExt(to int, x *Term) *Term {
	if to == x.S.W {
		return x
	}
	if to < x.S.W {
		return b.Extract(to-1, 0, x)
	}
	if x.IsConst() {
		return b.Const(to, x.C)
	}
	if x.Op == "zext" {
		return b.ZExt(to, x.Args[0])
	}
	return b.mk("zext", BVSort(to), 0, "", to-x.S.W, 0, x)
}

func (b *Bank) SExt(to int, x *Term) *Term {
	if to == x.S.W {
		return x
	}
	if to < x.S.W {
		return b.Extract(to-1, 0, x)
	}
	if x.IsConst() {
		return b.Const(to, uint64(signExt(x.C, x.S.W)))
	}
	return b.mk("sext", BVSort(to), 0, "", to-x.S.W, 0, x)
}

func (b *Bank) Concat(hi, lo *Term) *Term {
	w := hi.S.W + lo.S.W
	if hi.IsConst() && lo.IsConst() && w <= 64 {
		return b.Const(w, hi.C<<uint(lo.S.W)|lo.C)
	}
	return b.mk("concat", BVSort(w), 0, "", 0, 0, hi, lo)
}

// ---- uninterpreted functions ----

func (b *Bank) UF(name string, res Sort, args ...*Term) *Term {
	sig := make([]Sort, 0, len(args)+1)
	for _, a := range args {
		sig = append(sig, a.S)
	}
	sig = append(sig, res)
	if old, ok := b.UFs[name]; ok {
		if len(old) != len(sig) {
			panic("sym: UF arity changed: " + name)
		}
	} else {
		b.UFs[name] = sig
	}
	return b.mk("uf", res, 0, name, 0, 0, args...)
}

// ---- strings and regular languages (used only by the text harnesses) ----

func (b *Bank) StrConst(s string) *Term { return b.mk("strconst", StringSort, 0, s, 0, 0) }
func (b *Bank) StrConcat(xs ...*Term) *Term {
	var out []*Term
	for _, x := range xs {
		if x.Op == "strconst" && x.Str == "" {
			continue
		}
		if x.Op == "str.++" {
			out = append(out, x.Args...)
			continue
		}
		if n := len(out); n > 0 && out[n-1].Op == "strconst" && x.Op == "strconst" {
			out[n-1] = b.StrConst(out[n-1].Str + x.Str)
			continue
		}
		out = append(out, x)
	}
	if len(out) == 0 {
		return b.StrConst("")
	}
	if len(out) == 1 {
		return out[0]
	}
	return b.mk("str.++", StringSort, 0, "", 0, 0, out...)
}

// StrLen returns an Int-valued term; only used inside StrOp-style raw
// constraints, so it is kept as an opaque node of sort BV(0) is avoided:
// lengths are compared through the helpers below.
func (b *Bank) Raw(op string, s Sort, args ...*Term) *Term { return b.mk(op, s, 0, "", 0, 0, args...) }
func (b *Bank) RawP(op string, s Sort, p1, p2 int, args ...*Term) *Term {
	return b.mk(op, s, 0, "", p1, p2, args...)
}

func (b *Bank) InRe(s, re *Term) *Term { return b.mk("str.in_re", BoolSort, 0, "", 0, 0, s, re) }

// ---- printing ----

func smtString(s string) string {
	var sb strings.Builder
	sb.WriteByte('"')
	for _, r := range []byte(s) {
		switch {
		case r == '"':
			sb.WriteString(`""`)
		case r >= 0x20 && r < 0x7f && r != '\\':
			sb.WriteByte(r)
		default:
			fmt.Fprintf(&sb, `\u{%x}`, r)
		}
	}
	sb.WriteByte('"')
	return sb.String()
}

func constLit(t *Term) string {
	switch t.S.K {
	case SBool:
		if t.C == 1 {
			return "true"
		}
		return "false"
	case SBV:
		if t.S.W%4 == 0 {
			return fmt.Sprintf("#x%0*x", t.S.W/4, t.C)
		}
		return fmt.Sprintf("#b%0*b", t.S.W, t.C)
	}
	panic("constLit")
}

// Ref returns the token used to refer to t inside other definitions.
func Ref(t *Term) string {
	switch t.Op {
	case "const":
		return constLit(t)
	case "var":
		return t.Str
	case "strconst":
		return smtString(t.Str)
	}
	if len(t.Args) == 0 {
		return body(t)
	}
	return "t" + strconv.Itoa(t.ID)
}

func body(t *Term) string {
	var sb strings.Builder
	switch t.Op {
	case "extract":
		fmt.Fprintf(&sb, "((_ extract %d %d) %s)", t.P1, t.P2, Ref(t.Args[0]))
		return sb.String()
	case "zext":
		fmt.Fprintf(&sb, "((_ zero_extend %d) %s)", t.P1, Ref(t.Args[0]))
		return sb.String()
	case "sext":
		fmt.Fprintf(&sb, "((_ sign_extend %d) %s)", t.P1, Ref(t.Args[0]))
		return sb.String()
	case "re.loop":
		fmt.Fprintf(&sb, "((_ re.loop %d %d) %s)", t.P1, t.P2, Ref(t.Args[0]))
		return sb.String()
	case "re.^":
		fmt.Fprintf(&sb, "((_ re.^ %d) %s)", t.P1, Ref(t.Args[0]))
		return sb.String()
	case "int":
		return strconv.Itoa(t.P1)
	}
	op := t.Op
	if op == "uf" {
		op = t.Str
	}
	if len(t.Args) == 0 {
		return op
	}
	sb.WriteByte('(')
	sb.WriteString(op)
	for _, a := range t.Args {
		sb.WriteByte(' ')
		sb.WriteString(Ref(a))
	}
	sb.WriteByte(')')
	return sb.String()
}

// Emitter tracks what one solver process has already been told.
type Emitter struct {
	b       *Bank
	defined map[int]bool
	ufs     map[string]bool
}

func NewEmitter(b *Bank) *Emitter { return &Emitter{b: b, defined: map[int]bool{}, ufs: map[string]bool{}} }

// Define returns the declarations/definitions (in dependency order) needed
// before roots can be referenced.
func (e *Emitter) Define(roots ...*Term) []string {
	var out []string
	var visit func(t *Term)
	visit = func(t *Term) {
		if e.defined[t.ID] {
			return
		}
		e.defined[t.ID] = true
		for _, a := range t.Args {
			visit(a)
		}
		switch t.Op {
		case "const", "strconst":
			return
		case "var":
			out = append(out, fmt.Sprintf("(declare-const %s %s)", t.Str, t.S))
			return
		case "uf":
			if !e.ufs[t.Str] {
				e.ufs[t.Str] = true
				sig := e.b.UFs[t.Str]
				var as []string
				for _, s := range sig[:len(sig)-1] {
					as = append(as, s.String())
				}
				out = append(out, fmt.Sprintf("(declare-fun %s (%s) %s)", t.Str, strings.Join(as, " "), sig[len(sig)-1]))
			}
		}
		if len(t.Args) == 0 {
			return
		}
		out = append(out, fmt.Sprintf("(define-fun t%d () %s %s)", t.ID, t.S, body(t)))
	}
	for _, r := range roots {
		visit(r)
	}
	return out
}

// VarsOf returns the variables reachable from roots, sorted by name.
func VarsOf(roots ...*Term) []*Term {
	seen := map[int]bool{}
	var vs []*Term
	var visit func(t *Term)
	visit = func(t *Term) {
		if seen[t.ID] {
			return
		}
		seen[t.ID] = true
		if t.Op == "var" {
			vs = append(vs, t)
		}
		for _, a := range t.Args {
			visit(a)
		}
	}
	for _, r := range roots {
		visit(r)
	}
	sort.Slice(vs, func(i, j int) bool { return vs[i].Str < vs[j].Str })
	return vs
}

// Eval evaluates a BV/Bool term under a model (variables by name). Strings,
// UFs are not supported (ok=false).
func Eval(t *Term, model map[string]uint64) (v uint64, ok bool) {
	memo := map[int]uint64{}
	var bad bool
	var ev func(t *Term) uint64
	ev = func(t *Term) uint64 {
		if r, ok := memo[t.ID]; ok {
			return r
		}
		var r uint64
		a := func(i int) uint64 { return ev(t.Args[i]) }
		w := t.S.W
		switch t.Op {
		case "const":
			r = t.C
		case "var":
			x, ok := model[t.Str]
			if !ok {
				x = 0
			}
			r = x
		case "not":
			r = 1 - a(0)
		case "and":
			r = 1
			for i := range t.Args {
				if a(i) == 0 {
					r = 0
				}
			}
		case "or":
			r = 0
			for i := range t.Args {
				if a(i) == 1 {
					r = 1
				}
			}
		case "ite":
			if a(0) == 1 {
				r = a(1)
			} else {
				r = a(2)
			}
		case "=":
			if t.Args[0].S.K == SString {
				bad = true
			}
			if a(0) == a(1) {
				r = 1
			}
		case "extract":
			r = (a(0) >> uint(t.P2)) & mask(t.P1-t.P2+1)
		case "zext":
			r = a(0)
		case "sext":
			r = uint64(signExt(a(0), t.Args[0].S.W)) & mask(w)
		case "concat":
			r = (a(0)<<uint(t.Args[1].S.W) | a(1)) & mask(w)
		case "bvnot":
			r = ^a(0) & mask(w)
		case "bvneg":
			r = -a(0) & mask(w)
		case "bvult", "bvule", "bvslt", "bvsle":
			x, y := a(0), a(1)
			ww := t.Args[0].S.W
			var c bool
			switch t.Op {
			case "bvult":
				c = x < y
			case "bvule":
				c = x <= y
			case "bvslt":
				c = signExt(x, ww) < signExt(y, ww)
			case "bvsle":
				c = signExt(x, ww) <= signExt(y, ww)
			}
			if c {
				r = 1
			}
		default:
			if strings.HasPrefix(t.Op, "bv") && len(t.Args) == 2 {
				bb := NewBank()
				r = bb.bin(t.Op, bb.Const(w, a(0)), bb.Const(w, a(1))).C
			} else {
				bad = true
			}
		}
		memo[t.ID] = r
		return r
	}
	v = ev(t)
	return v, !bad
}
