package sym

import (
	"bufio"
	"fmt"
	"io"
	"os"
	"os/exec"
	"strconv"
	"strings"
	"sync"
	"time"
)

type Verdict int

const (
	Unknown Verdict = iota
	Sat
	Unsat
)

func (v Verdict) String() string { return [...]string{"unknown", "sat", "unsat"}[v] }

// Model maps variable names to values (bit-vectors/bools as uint64, strings
// as Go strings in Strs).
type Model struct {
	Vals map[string]uint64
	Strs map[string]string
}

// Proc is one live solver process.
type Proc struct {
	Name    string
	argv    []string
	cmd     *exec.Cmd
	in      io.WriteCloser
	out     *bufio.Reader
	em      *Emitter
	bank    *Bank
	lines   chan string
	dead    bool
	prelude []string

	Queries  int
	Sats     int
	Unsats   int
	Unknowns int
	Errors   int
	Wall     time.Duration
	LastErr  string
}

var SolverArgv = map[string][]string{
	"z3":    {"z3", "-in"},
	"z3new": {"z3-new", "-in"},
	"cvc5":  {"cvc5", "--incremental", "--lang=smt2", "--produce-models", "--strings-exp"},
}

func StartProc(name string, bank *Bank) (*Proc, error) {
	p := &Proc{Name: name, argv: SolverArgv[name], bank: bank}
	if p.argv == nil {
		return nil, fmt.Errorf("unknown solver %q", name)
	}
	if err := p.start(); err != nil {
		return nil, err
	}
	return p, nil
}

func (p *Proc) start() error {
	p.cmd = exec.Command(p.argv[0], p.argv[1:]...)
	in, err := p.cmd.StdinPipe()
	if err != nil {
		return err
	}
	out, err := p.cmd.StdoutPipe()
	if err != nil {
		return err
	}
	p.cmd.Stderr = p.cmd.Stdout
	if err := p.cmd.Start(); err != nil {
		return err
	}
	p.in = in
	p.out = bufio.NewReaderSize(out, 1<<20)
	p.lines = make(chan string, 1024)
	go func(r *bufio.Reader, ch chan string) {
		for {
			l, err := r.ReadString('\n')
			if l != "" {
				ch <- strings.TrimRight(l, "\r\n")
			}
			if err != nil {
				close(ch)
				return
			}
		}
	}(p.out, p.lines)
	p.dead = false
	p.em = NewEmitter(p.bank)
	if p.Name != "cvc5" {
		p.send("(set-option :produce-models true)")
	} else {
		p.send("(set-logic ALL)")
	}
	for _, l := range p.prelude {
		p.send(l)
	}
	return nil
}

// Reset forgets all definitions and rebinds to a (new) bank.
func (p *Proc) Reset(bank *Bank) {
	p.bank = bank
	p.prelude = nil
	if p.dead {
		p.start()
		return
	}
	p.em = NewEmitter(bank)
	p.send("(reset)")
	if p.Name != "cvc5" {
		p.send("(set-option :produce-models true)")
	} else {
		p.send("(set-logic ALL)")
	}
}

// Prelude sends raw lines (axioms, declarations) that survive restarts.
func (p *Proc) Prelude(lines ...string) {
	p.prelude = append(p.prelude, lines...)
	for _, l := range lines {
		p.send(l)
	}
}

func (p *Proc) Close() {
	if p.cmd != nil && p.cmd.Process != nil {
		p.in.Close()
		p.cmd.Process.Kill()
		p.cmd.Wait()
	}
	p.dead = true
}

// Kill terminates the process from another goroutine; the pending Check
// returns Unknown and the process is restarted on the next query.
func (p *Proc) Kill() {
	if p.cmd != nil && p.cmd.Process != nil {
		p.cmd.Process.Kill()
	}
}

func (p *Proc) send(s string) {
	if p.dead {
		return
	}
	if _, err := io.WriteString(p.in, s+"\n"); err != nil {
		p.dead = true
	}
}

// readUntil reads lines until one equals marker or the deadline passes.
func (p *Proc) readUntil(marker string, deadline time.Time) (lines []string, ok bool) {
	for {
		d := time.Until(deadline)
		if d <= 0 {
			return lines, false
		}
		select {
		case l, open := <-p.lines:
			if !open {
				p.dead = true
				return lines, false
			}
			if l == marker || l == `"`+marker+`"` {
				return lines, true
			}
			lines = append(lines, l)
		case <-time.After(d):
			return lines, false
		}
	}
}

var markerCount int
var markerMu sync.Mutex

func nextMarker() string {
	markerMu.Lock()
	defer markerMu.Unlock()
	markerCount++
	return "sync-" + strconv.Itoa(markerCount)
}

// Check decides the conjunction of asserts. On Sat the model of want (or of
// all variables occurring in asserts when want is nil) is returned.
func (p *Proc) Check(asserts []*Term, timeout time.Duration, wantModel bool, extra ...*Term) (Verdict, *Model) {
	start := time.Now()
	defer func() { p.Wall += time.Since(start) }()
	p.Queries++
	if p.dead {
		if err := p.start(); err != nil {
			p.Errors++
			p.LastErr = err.Error()
			return Unknown, nil
		}
	}
	roots := append(append([]*Term(nil), asserts...), extra...)
	for _, d := range p.em.Define(roots...) {
		p.send(d)
	}
	p.send("(push 1)")
	ms := int(timeout / time.Millisecond)
	if p.Name == "cvc5" {
		p.send(fmt.Sprintf("(set-option :tlimit-per %d)", ms))
	} else {
		p.send(fmt.Sprintf("(set-option :timeout %d)", ms))
	}
	for _, a := range asserts {
		p.send("(assert " + Ref(a) + ")")
	}
	m := nextMarker()
	p.send("(check-sat)")
	p.send(`(echo "` + m + `")`)
	lines, ok := p.readUntil(m, time.Now().Add(timeout+5*time.Second))
	if !ok {
		// hard timeout or dead process: kill and restart lazily
		p.Close()
		p.Unknowns++
		p.LastErr = "hard timeout/killed"
		return Unknown, nil
	}
	v := Unknown
	for _, l := range lines {
		switch {
		case strings.HasPrefix(l, "(error"):
			p.Errors++
			p.LastErr = l
			p.send("(pop 1)")
			p.Unknowns++
			return Unknown, nil
		case l == "sat":
			v = Sat
		case l == "unsat":
			v = Unsat
		}
	}
	var model *Model
	if v == Sat && wantModel {
		vars := VarsOf(roots...)
		if len(vars) > 0 {
			var sb strings.Builder
			sb.WriteString("(get-value (")
			for _, x := range vars {
				sb.WriteString(x.Str)
				sb.WriteByte(' ')
			}
			sb.WriteString("))")
			m2 := nextMarker()
			p.send(sb.String())
			p.send(`(echo "` + m2 + `")`)
			ml, ok := p.readUntil(m2, time.Now().Add(30*time.Second))
			if !ok {
				p.Close()
				p.Unknowns++
				return Unknown, nil
			}
			model = parseModel(strings.Join(ml, "\n"))
			for _, l := range ml {
				if strings.HasPrefix(l, "(error") {
					p.Errors++
					p.LastErr = l
				}
			}
		} else {
			model = &Model{Vals: map[string]uint64{}, Strs: map[string]string{}}
		}
	}
	p.send("(pop 1)")
	switch v {
	case Sat:
		p.Sats++
	case Unsat:
		p.Unsats++
	default:
		p.Unknowns++
	}
	return v, model
}

// parseModel parses ((name value) ...) as printed by z3/cvc5.
func parseModel(s string) *Model {
	m := &Model{Vals: map[string]uint64{}, Strs: map[string]string{}}
	i := 0
	n := len(s)
	skip := func() {
		for i < n && (s[i] == ' ' || s[i] == '\n' || s[i] == '\t') {
			i++
		}
	}
	skip()
	if i >= n || s[i] != '(' {
		return m
	}
	i++
	for {
		skip()
		if i >= n || s[i] == ')' {
			break
		}
		if s[i] != '(' {
			break
		}
		i++
		skip()
		st := i
		for i < n && s[i] != ' ' && s[i] != '\n' {
			i++
		}
		name := s[st:i]
		skip()
		// value token
		if i < n && s[i] == '"' {
			i++
			var sb strings.Builder
			for i < n {
				if s[i] == '"' {
					if i+1 < n && s[i+1] == '"' {
						sb.WriteByte('"')
						i += 2
						continue
					}
					i++
					break
				}
				sb.WriteByte(s[i])
				i++
			}
			m.Strs[name] = unescapeSMT(sb.String())
		} else if i < n && s[i] == '(' {
			// (_ bvN w)
			st := i
			depth := 0
			for i < n {
				if s[i] == '(' {
					depth++
				} else if s[i] == ')' {
					depth--
					if depth == 0 {
						i++
						break
					}
				}
				i++
			}
			tok := s[st:i]
			f := strings.Fields(strings.Trim(tok, "()"))
			if len(f) == 3 && f[0] == "_" && strings.HasPrefix(f[1], "bv") {
				v, _ := strconv.ParseUint(f[1][2:], 10, 64)
				m.Vals[name] = v
			}
		} else {
			st := i
			for i < n && s[i] != ')' && s[i] != ' ' && s[i] != '\n' {
				i++
			}
			tok := s[st:i]
			switch {
			case tok == "true":
				m.Vals[name] = 1
			case tok == "false":
				m.Vals[name] = 0
			case strings.HasPrefix(tok, "#x"):
				v, _ := strconv.ParseUint(tok[2:], 16, 64)
				m.Vals[name] = v
			case strings.HasPrefix(tok, "#b"):
				v, _ := strconv.ParseUint(tok[2:], 2, 64)
				m.Vals[name] = v
			default:
				v, err := strconv.ParseUint(tok, 10, 64)
				if err == nil {
					m.Vals[name] = v
				}
			}
		}
		skip()
		if i < n && s[i] == ')' {
			i++
		}
	}
	return m
}

func unescapeSMT(s string) string {
	var sb strings.Builder
	for i := 0; i < len(s); i++ {
		if s[i] == '\\' && i+2 < len(s) && s[i+1] == 'u' && s[i+2] == '{' {
			j := strings.IndexByte(s[i:], '}')
			if j > 0 {
				v, err := strconv.ParseUint(s[i+3:i+j], 16, 32)
				if err == nil {
					sb.WriteRune(rune(v))
					i += j
					continue
				}
			}
		}
		if s[i] == '\\' && i+5 < len(s) && s[i+1] == 'u' {
			v, err := strconv.ParseUint(s[i+2:i+6], 16, 32)
			if err == nil {
				sb.WriteRune(rune(v))
				i += 5
				continue
			}
		}
		if s[i] == '\\' && i+3 < len(s) && s[i+1] == 'x' {
			v, err := strconv.ParseUint(s[i+2:i+4], 16, 32)
			if err == nil {
				sb.WriteByte(byte(v))
				i += 3
				continue
			}
		}
		sb.WriteByte(s[i])
	}
	return sb.String()
}

// OneShot decides the conjunction with a fresh, non-incremental solver
// process (z3's incremental mode does not use its bit-blasting tactic and can
// be orders of magnitude slower on the same query).
func OneShot(name string, bank *Bank, asserts []*Term, timeout time.Duration, wantModel bool, prelude []string, cancel <-chan struct{}) (Verdict, *Model) {
	em := NewEmitter(bank)
	var sb strings.Builder
	if name == "cvc5" {
		sb.WriteString("(set-logic ALL)\n")
	}
	sb.WriteString("(set-option :produce-models true)\n")
	for _, l := range prelude {
		sb.WriteString(l + "\n")
	}
	for _, l := range em.Define(asserts...) {
		sb.WriteString(l + "\n")
	}
	for _, a := range asserts {
		sb.WriteString("(assert " + Ref(a) + ")\n")
	}
	sb.WriteString("(check-sat)\n")
	vars := VarsOf(asserts...)
	if wantModel && len(vars) > 0 {
		sb.WriteString("(get-value (")
		for _, x := range vars {
			sb.WriteString(x.Str + " ")
		}
		sb.WriteString("))\n")
	}
	f, err := os.CreateTemp("", "verif-q-*.smt2")
	if err != nil {
		return Unknown, nil
	}
	if d := os.Getenv("VERIF_DUMP_ALL"); d != "" {
		os.MkdirAll(d, 0o755)
		os.WriteFile(fmt.Sprintf("%s/os%d_%d.smt2", d, os.Getpid(), time.Now().UnixNano()), []byte(sb.String()), 0o644)
	}
	defer os.Remove(f.Name())
	f.WriteString(sb.String())
	f.Close()
	var argv []string
	secs := int(timeout/time.Second) + 1
	switch name {
	case "z3":
		argv = []string{"z3", fmt.Sprintf("-T:%d", secs), f.Name()}
	case "z3new":
		argv = []string{"z3-new", fmt.Sprintf("-T:%d", secs), f.Name()}
	case "cvc5":
		argv = []string{"cvc5", fmt.Sprintf("--tlimit=%d", secs*1000), "--produce-models", "--strings-exp", f.Name()}
	default:
		return Unknown, nil
	}
	cmd := exec.Command(argv[0], argv[1:]...)
	var out strings.Builder
	cmd.Stdout = &out
	cmd.Stderr = &out
	if err := cmd.Start(); err != nil {
		return Unknown, nil
	}
	done := make(chan struct{})
	go func() { cmd.Wait(); close(done) }()
	select {
	case <-done:
	case <-cancel:
		cmd.Process.Kill()
		<-done
		return Unknown, nil
	case <-time.After(timeout + 5*time.Second):
		cmd.Process.Kill()
		<-done
		return Unknown, nil
	}
	text := out.String()
	lines := strings.SplitN(strings.TrimSpace(text), "\n", 2)
	if len(lines) == 0 {
		return Unknown, nil
	}
	switch strings.TrimSpace(lines[0]) {
	case "unsat":
		// an (error line other than the model request after unsat is inconclusive
		return Unsat, nil
	case "sat":
		m := &Model{Vals: map[string]uint64{}, Strs: map[string]string{}}
		if len(lines) > 1 {
			if strings.Contains(lines[1], "(error") {
				return Unknown, nil
			}
			m = parseModel(lines[1])
		}
		return Sat, m
	}
	return Unknown, nil
}
