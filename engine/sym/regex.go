package sym

// NormalizeRegex rewrites assertions that are Boolean combinations of
// memberships of ONE string variable in regular languages into a single
// membership per variable (union / intersection / complement of the
// languages). Solvers decide one membership by an emptiness check and are
// much slower on the Boolean combination.
func NormalizeRegex(b *Bank, asserts []*Term) []*Term {
	has := false
	for _, a := range asserts {
		if containsInRe(a, map[int]bool{}) {
			has = true
			break
		}
	}
	if !has {
		return asserts
	}
	var out []*Term
	perVar := map[int][]*Term{}
	vars := map[int]*Term{}
	var order []int
	for _, a := range asserts {
		if v, r, ok := toRegex(b, a); ok {
			if _, seen := perVar[v.ID]; !seen {
				order = append(order, v.ID)
			}
			perVar[v.ID] = append(perVar[v.ID], r)
			vars[v.ID] = v
			continue
		}
		out = append(out, a)
	}
	for _, id := range order {
		rs := perVar[id]
		out = append(out, b.InRe(vars[id], mkInter(b, rs)))
	}
	return out
}

func dedup(rs []*Term) []*Term {
	seen := map[int]bool{}
	var out []*Term
	for _, r := range rs {
		if !seen[r.ID] {
			seen[r.ID] = true
			out = append(out, r)
		}
	}
	if len(out) == 1 {
		out = append(out, out[0])
	}
	return out
}

func containsInRe(t *Term, seen map[int]bool) bool {
	if seen[t.ID] {
		return false
	}
	seen[t.ID] = true
	if t.Op == "str.in_re" {
		return true
	}
	if t.S.K != SBool {
		return false
	}
	for _, a := range t.Args {
		if containsInRe(a, seen) {
			return true
		}
	}
	return false
}

// toRegex: t == (v in R) for a single variable v.
func toRegex(b *Bank, t *Term) (v *Term, r *Term, ok bool) {
	switch t.Op {
	case "str.in_re":
		if t.Args[0].Op == "var" {
			return t.Args[0], t.Args[1], true
		}
	case "not":
		v, r, ok := toRegex(b, t.Args[0])
		if ok {
			return v, mkComp(b, r), true
		}
	case "and", "or":
		var rs []*Term
		for _, a := range t.Args {
			v2, r2, ok := toRegex(b, a)
			if !ok || (v != nil && v2 != v) {
				return nil, nil, false
			}
			v = v2
			rs = append(rs, r2)
		}
		if t.Op == "or" {
			return v, mkUnion(b, rs), true
		}
		return v, mkInter(b, rs), true
	case "ite":
		// ite(c, x, y) on Bools
		if t.S.K == SBool {
			c, x, y := t.Args[0], t.Args[1], t.Args[2]
			return toRegex(b, b.Or(b.And(c, x), b.And(b.Not(c), y)))
		}
	}
	return nil, nil, false
}

func mkComp(b *Bank, r *Term) *Term {
	if r.Op == "re.comp" {
		return r.Args[0]
	}
	return b.Raw("re.comp", RegLanSort, r)
}

func uniq(rs []*Term) []*Term {
	seen := map[int]bool{}
	var out []*Term
	for _, r := range rs {
		if !seen[r.ID] {
			seen[r.ID] = true
			out = append(out, r)
		}
	}
	return out
}

// mkUnion flattens and factors "contains" languages:
// (A* x A*) | (A* y A*) = A* (x|y) A*  - solvers handle the factored form
// orders of magnitude faster.
func mkUnion(b *Bank, rs []*Term) *Term {
	var flat []*Term
	for _, r := range rs {
		if r.Op == "re.union" {
			flat = append(flat, r.Args...)
		} else {
			flat = append(flat, r)
		}
	}
	flat = uniq(flat)
	var rest, mids []*Term
	var all *Term
	for _, r := range flat {
		if r.Op == "re.++" && len(r.Args) == 3 && r.Args[0] == r.Args[2] && r.Args[0].Op == "re.*" && (all == nil || all == r.Args[0]) {
			all = r.Args[0]
			if r.Args[1].Op == "re.union" {
				mids = append(mids, r.Args[1].Args...)
			} else {
				mids = append(mids, r.Args[1])
			}
			continue
		}
		rest = append(rest, r)
	}
	if len(mids) > 0 {
		mids = uniq(mids)
		mid := mids[0]
		if len(mids) > 1 {
			mid = b.Raw("re.union", RegLanSort, mids...)
		}
		rest = append(rest, b.Raw("re.++", RegLanSort, all, mid, all))
	}
	if len(rest) == 1 {
		return rest[0]
	}
	return b.Raw("re.union", RegLanSort, rest...)
}

// mkInter flattens and joins complements by De Morgan:
// ~A & ~B = ~(A|B).
func mkInter(b *Bank, rs []*Term) *Term {
	var flat []*Term
	for _, r := range rs {
		if r.Op == "re.inter" {
			flat = append(flat, r.Args...)
		} else {
			flat = append(flat, r)
		}
	}
	flat = uniq(flat)
	var rest, comps []*Term
	for _, r := range flat {
		if r.Op == "re.comp" {
			comps = append(comps, r.Args[0])
		} else {
			rest = append(rest, r)
		}
	}
	if len(comps) > 0 {
		rest = append(rest, b.Raw("re.comp", RegLanSort, mkUnion(b, comps)))
	}
	if len(rest) == 1 {
		return rest[0]
	}
	return b.Raw("re.inter", RegLanSort, rest...)
}
