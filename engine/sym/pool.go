package sym

import (
	"fmt"
	"os"
	"strings"
	"time"
)

// Pool is the set of solver processes of one worker. Feasibility questions go
// to the first solver that answers; verdict-bearing questions are decided by
// the first solver that gives a definite answer and confirmed by another one
// (cross-check) when one is configured.
type Pool struct {
	Bank  *Bank
	Procs []*Proc

	IncTimeout    time.Duration // incremental attempt of a verdict query before fresh processes are used
	OneShots      int
	incTimeouts   int
	StringQueries int
	StringWall    time.Duration
	FeasTimeout   time.Duration
	DecideTimeout time.Duration
	CrossTimeout  time.Duration
	CrossCheck    bool

	Decided       int
	CrossChecked  int
	DecidedByOne  int
	Disagreements []string
	Inconclusive  int
	Fallbacks     int
}

func NewPool(bank *Bank, names ...string) (*Pool, error) {
	pl := &Pool{Bank: bank, IncTimeout: 5 * time.Second, FeasTimeout: 10 * time.Second, DecideTimeout: 60 * time.Second, CrossTimeout: 10 * time.Second, CrossCheck: true}
	for _, n := range names {
		p, err := StartProc(n, bank)
		if err != nil {
			pl.Close()
			return nil, fmt.Errorf("start %s: %v", n, err)
		}
		pl.Procs = append(pl.Procs, p)
	}
	return pl, nil
}

func (pl *Pool) Close() {
	for _, p := range pl.Procs {
		p.Close()
	}
}

func (pl *Pool) Reset(bank *Bank) {
	pl.Bank = bank
	pl.incTimeouts = 0
	for _, p := range pl.Procs {
		p.Reset(bank)
	}
}

func (pl *Pool) Prelude(lines ...string) {
	for _, p := range pl.Procs {
		p.Prelude(lines...)
	}
}

// Feasible answers whether the conjunction has a model; Unknown is possible.
func (pl *Pool) Feasible(asserts []*Term, wantModel bool) (Verdict, *Model) {
	asserts = NormalizeRegex(pl.Bank, asserts)
	if hasStrings(asserts) {
		// string queries: fresh z3 processes only (incremental mode is orders of magnitude
		// slower on regular-language memberships; cvc5 1.0.3 can hang on them)
		return pl.stringQuery(asserts, wantModel, pl.FeasTimeout*2)
	}
	for i, p := range pl.Procs {
		var v Verdict
		var m *Model
		if i == 0 && pl.incTimeouts >= 3 {
			v = Unknown // incremental mode keeps timing out on this instance: go to a fresh process at once
		} else {
			to := pl.FeasTimeout
			if i == 0 {
				to = pl.FeasTimeout / 3
			}
			v, m = p.Check(asserts, to, wantModel)
			if v == Unknown && i == 0 {
				pl.incTimeouts++
			}
		}
		if v != Unknown {
			if i > 0 {
				pl.Fallbacks++
			}
			return v, m
		}
		if i == 0 {
			// fresh process of the primary solver before trying the others incrementally
			v, m := OneShot(p.Name, pl.Bank, asserts, 3*pl.FeasTimeout, wantModel, p.prelude, nil)
			if v != Unknown {
				pl.OneShots++
				return v, m
			}
		}
	}
	return Unknown, nil
}

// Decide is the verdict-bearing query: all solvers are started on it at once,
// the first definite answer is taken, and the others get CrossTimeout to
// confirm it. A different definite answer is a disagreement (Unknown + entry in
// Disagreements). Solvers still running after the grace period are killed and
// restarted lazily.
func (pl *Pool) Decide(asserts []*Term, wantModel bool) (Verdict, *Model) {
	asserts = NormalizeRegex(pl.Bank, asserts)
	if hasStrings(asserts) {
		pl.Decided++
		v, m := pl.stringQuery(asserts, wantModel, pl.DecideTimeout)
		if v == Unknown {
			pl.Inconclusive++
		} else {
			pl.DecidedByOne++
		}
		return v, m
	}
	pl.Decided++
	if d := os.Getenv("VERIF_DUMP"); d != "" {
		em := NewEmitter(pl.Bank)
		var sb strings.Builder
		for _, l := range em.Define(asserts...) {
			sb.WriteString(l + "\n")
		}
		for _, a := range asserts {
			sb.WriteString("(assert " + Ref(a) + ")\n")
		}
		sb.WriteString("(check-sat)\n")
		os.MkdirAll(d, 0o755)
		os.WriteFile(fmt.Sprintf("%s/q%d_%d.smt2", d, os.Getpid(), pl.Decided), []byte(sb.String()), 0o644)
	}
	type ans struct {
		i int
		v Verdict
		m *Model
	}
	n := len(pl.Procs)
	if n == 1 || !pl.CrossCheck {
		v, m := pl.Feasible(asserts, wantModel)
		if v == Unknown {
			pl.Inconclusive++
		} else {
			pl.DecidedByOne++
		}
		return v, m
	}
	// the first two solvers race; further ones are fall-backs
	if n > 2 {
		n = 2
	}
	if pl.incTimeouts >= 3 {
		n = 0 // this instance's queries are of the kind incremental mode is slow on: fresh processes at once
	}
	ch := make(chan ans, n)
	for i, p := range pl.Procs[:n] {
		go func(i int, p *Proc) {
			v, m := p.Check(asserts, pl.IncTimeout, wantModel)
			ch <- ans{i, v, m}
		}(i, p)
	}
	var first *ans
	confirmed := false
	got := 0
	var grace <-chan time.Time
	running := map[int]bool{}
	for i := range pl.Procs[:n] {
		running[i] = true
	}
loop:
	for got < n {
		select {
		case a := <-ch:
			got++
			delete(running, a.i)
			if a.v == Unknown {
				continue
			}
			if first == nil {
				aa := a
				first = &aa
				grace = time.After(pl.CrossTimeout)
				continue
			}
			if a.v != first.v {
				pl.Disagreements = append(pl.Disagreements, fmt.Sprintf("%s=%v %s=%v", pl.Procs[first.i].Name, first.v, pl.Procs[a.i].Name, a.v))
				first = nil
				break loop
			}
			confirmed = true
			break loop
		case <-grace:
			break loop
		}
	}
	// stop stragglers: interrupting a query means killing the process
	for i := range running {
		pl.Procs[i].Kill()
	}
	for got < n {
		<-ch
		got++
	}
	if first == nil && n > 0 {
		pl.incTimeouts++
	}
	if first == nil && len(pl.Disagreements) == 0 {
		// fresh non-incremental processes, all solvers at once
		pl.OneShots++
		cancel := make(chan struct{})
		och := make(chan ans, len(pl.Procs))
		for i, p := range pl.Procs {
			go func(i int, name string, prelude []string) {
				v, m := OneShot(name, pl.Bank, asserts, pl.DecideTimeout, wantModel, prelude, cancel)
				och <- ans{i, v, m}
			}(i, p.Name, p.prelude)
		}
		ogot := 0
		var ograce <-chan time.Time
	oloop:
		for ogot < len(pl.Procs) {
			select {
			case a := <-och:
				ogot++
				if a.v == Unknown {
					continue
				}
				if first == nil {
					aa := a
					first = &aa
					ograce = time.After(pl.CrossTimeout)
					continue
				}
				if a.v != first.v {
					pl.Disagreements = append(pl.Disagreements, fmt.Sprintf("%s=%v %s=%v", pl.Procs[first.i].Name, first.v, pl.Procs[a.i].Name, a.v))
					first = nil
					break oloop
				}
				confirmed = true
				break oloop
			case <-ograce:
				break oloop
			}
		}
		close(cancel)
	}
	if first == nil {
		pl.Inconclusive++
		return Unknown, nil
	}
	if confirmed {
		pl.CrossChecked++
	} else {
		pl.DecidedByOne++
	}
	if pl.Procs[first.i].Name != pl.Procs[0].Name {
		pl.Fallbacks++
	}
	return first.v, first.m
}

func hasStrings(asserts []*Term) bool {
	seen := map[int]bool{}
	var visit func(t *Term) bool
	visit = func(t *Term) bool {
		if seen[t.ID] {
			return false
		}
		seen[t.ID] = true
		if t.S.K == SString || t.S.K == SRegLan {
			return true
		}
		for _, a := range t.Args {
			if visit(a) {
				return true
			}
		}
		return false
	}
	for _, a := range asserts {
		if visit(a) {
			return true
		}
	}
	return false
}

// stringQuery decides a query of the string theory with a fresh z3 5.x
// process (z3 4.8.12 as fall-back); no cross-check exists for these.
func (pl *Pool) stringQuery(asserts []*Term, wantModel bool, timeout time.Duration) (Verdict, *Model) {
	pl.StringQueries++
	var prelude []string
	if len(pl.Procs) > 0 {
		prelude = pl.Procs[0].prelude
	}
	// z3 5.1 is the faster one on pure regular-language memberships, z3 4.8.12 on
	// concatenation/prefix constraints: both run, the first definite answer wins
	t0 := time.Now()
	type ans struct {
		v Verdict
		m *Model
	}
	cancel := make(chan struct{})
	ch := make(chan ans, 2)
	for _, name := range []string{"z3new", "z3"} {
		go func(name string) {
			v, m := OneShot(name, pl.Bank, asserts, timeout, wantModel, prelude, cancel)
			ch <- ans{v, m}
		}(name)
	}
	var res ans
	for i := 0; i < 2; i++ {
		a := <-ch
		if a.v != Unknown {
			res = a
			break
		}
	}
	close(cancel)
	pl.StringWall += time.Since(t0)
	return res.v, res.m
}
