package sym

import (
	"fmt"
	"time"
)

// Pool is the set of solver processes of one worker. Feasibility questions go
// to the first solver that answers; verdict-bearing questions are decided by
// the first solver that gives a definite answer and confirmed by another one
// (cross-check) when one is configured.
type Pool struct {
	Bank  *Bank
	Procs []*Proc

	FeasTimeout   time.Duration
	DecideTimeout time.Duration
	CrossTimeout  time.Duration
	CrossCheck    bool

	Decided       int
	CrossChecked  int
	DecidedByOne  int
	Disagreements []string
	Inconclusive  int
	Fallbacks     int
}

func NewPool(bank *Bank, names ...string) (*Pool, error) {
	pl := &Pool{Bank: bank, FeasTimeout: 20 * time.Second, DecideTimeout: 60 * time.Second, CrossTimeout: 20 * time.Second, CrossCheck: true}
	for _, n := range names {
		p, err := StartProc(n, bank)
		if err != nil {
			pl.Close()
			return nil, fmt.Errorf("start %s: %v", n, err)
		}
		pl.Procs = append(pl.Procs, p)
	}
	return pl, nil
}

func (pl *Pool) Close() {
	for _, p := range pl.Procs {
		p.Close()
	}
}

func (pl *Pool) Reset(bank *Bank) {
	pl.Bank = bank
	for _, p := range pl.Procs {
		p.Reset(bank)
	}
}

func (pl *Pool) Prelude(lines ...string) {
	for _, p := range pl.Procs {
		p.Prelude(lines...)
	}
}

// Feasible answers whether the conjunction has a model; Unknown is possible.
func (pl *Pool) Feasible(asserts []*Term, wantModel bool) (Verdict, *Model) {
	for i, p := range pl.Procs {
		v, m := p.Check(asserts, pl.FeasTimeout, wantModel)
		if v != Unknown {
			if i > 0 {
				pl.Fallbacks++
			}
			return v, m
		}
	}
	return Unknown, nil
}

// Decide is the verdict-bearing query.
func (pl *Pool) Decide(asserts []*Term, wantModel bool) (Verdict, *Model) {
	pl.Decided++
	first := -1
	var v Verdict
	var m *Model
	for i, p := range pl.Procs {
		v, m = p.Check(asserts, pl.DecideTimeout, wantModel)
		if v != Unknown {
			first = i
			break
		}
	}
	if first < 0 {
		pl.Inconclusive++
		return Unknown, nil
	}
	if first > 0 {
		pl.Fallbacks++
	}
	if pl.CrossCheck && len(pl.Procs) > 1 {
		confirmed := false
		for i, p := range pl.Procs {
			if i == first {
				continue
			}
			v2, _ := p.Check(asserts, pl.CrossTimeout, false)
			if v2 == Unknown {
				continue
			}
			if v2 != v {
				pl.Disagreements = append(pl.Disagreements, fmt.Sprintf("%s=%v %s=%v", pl.Procs[first].Name, v, p.Name, v2))
				return Unknown, nil
			}
			confirmed = true
			break
		}
		if confirmed {
			pl.CrossChecked++
		} else {
			pl.DecidedByOne++
		}
	} else {
		pl.DecidedByOne++
	}
	return v, m
}
