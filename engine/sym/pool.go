package sym

import (
	"fmt"
	"time"
)

// Pool is the set of solver processes of one worker. Feasibility questions go
// to the first solver that answers; verdict-bearing questions are decided by
// the first solver that gives a definite answer and confirmed by another one
// (cross-check) when one is configured.
type Pool struct {
	Bank  *Bank
	Procs []*Proc

	FeasTimeout   time.Duration
	DecideTimeout time.Duration
	CrossTimeout  time.Duration
	CrossCheck    bool

	Decided       int
	CrossChecked  int
	DecidedByOne  int
	Disagreements []string
	Inconclusive  int
	Fallbacks     int
}

func NewPool(bank *Bank, names ...string) (*Pool, error) {
	pl := &Pool{Bank: bank, FeasTimeout: 20 * time.Second, DecideTimeout: 60 * time.Second, CrossTimeout: 10 * time.Second, CrossCheck: true}
	for _, n := range names {
		p, err := StartProc(n, bank)
		if err != nil {
			pl.Close()
			return nil, fmt.Errorf("start %s: %v", n, err)
		}
		pl.Procs = append(pl.Procs, p)
	}
	return pl, nil
}

func (pl *Pool) Close() {
	for _, p := range pl.Procs {
		p.Close()
	}
}

func (pl *Pool) Reset(bank *Bank) {
	pl.Bank = bank
	for _, p := range pl.Procs {
		p.Reset(bank)
	}
}

func (pl *Pool) Prelude(lines ...string) {
	for _, p := range pl.Procs {
		p.Prelude(lines...)
	}
}

// Feasible answers whether the conjunction has a model; Unknown is possible.
func (pl *Pool) Feasible(asserts []*Term, wantModel bool) (Verdict, *Model) {
	for i, p := range pl.Procs {
		v, m := p.Check(asserts, pl.FeasTimeout, wantModel)
		if v != Unknown {
			if i > 0 {
				pl.Fallbacks++
			}
			return v, m
		}
	}
	return Unknown, nil
}

// Decide is the verdict-bearing query: all solvers are started on it at once,
// the first definite answer is taken, and the others get CrossTimeout to
// confirm it. A different definite answer is a disagreement (Unknown + entry in
// Disagreements). Solvers still running after the grace period are killed and
// restarted lazily.
func (pl *Pool) Decide(asserts []*Term, wantModel bool) (Verdict, *Model) {
	pl.Decided++
	type ans struct {
		i int
		v Verdict
		m *Model
	}
	n := len(pl.Procs)
	if n == 1 || !pl.CrossCheck {
		v, m := pl.Feasible(asserts, wantModel)
		if v == Unknown {
			pl.Inconclusive++
		} else {
			pl.DecidedByOne++
		}
		return v, m
	}
	// the first two solvers race; further ones are fall-backs
	if n > 2 {
		n = 2
	}
	ch := make(chan ans, n)
	for i, p := range pl.Procs[:n] {
		go func(i int, p *Proc) {
			v, m := p.Check(asserts, pl.DecideTimeout, wantModel)
			ch <- ans{i, v, m}
		}(i, p)
	}
	var first *ans
	confirmed := false
	got := 0
	var grace <-chan time.Time
	running := map[int]bool{}
	for i := range pl.Procs[:n] {
		running[i] = true
	}
loop:
	for got < n {
		select {
		case a := <-ch:
			got++
			delete(running, a.i)
			if a.v == Unknown {
				continue
			}
			if first == nil {
				aa := a
				first = &aa
				grace = time.After(pl.CrossTimeout)
				continue
			}
			if a.v != first.v {
				pl.Disagreements = append(pl.Disagreements, fmt.Sprintf("%s=%v %s=%v", pl.Procs[first.i].Name, first.v, pl.Procs[a.i].Name, a.v))
				first = nil
				break loop
			}
			confirmed = true
			break loop
		case <-grace:
			break loop
		}
	}
	// stop stragglers: interrupting a query means killing the process
	for i := range running {
		pl.Procs[i].Kill()
	}
	for got < n {
		<-ch
		got++
	}
	if first == nil && len(pl.Disagreements) == 0 {
		for i := n; i < len(pl.Procs); i++ {
			v, m := pl.Procs[i].Check(asserts, pl.DecideTimeout, wantModel)
			if v != Unknown {
				first = &ans{i, v, m}
				break
			}
		}
	}
	if first == nil {
		pl.Inconclusive++
		return Unknown, nil
	}
	if confirmed {
		pl.CrossChecked++
	} else {
		pl.DecidedByOne++
	}
	if pl.Procs[first.i].Name != pl.Procs[0].Name {
		pl.Fallbacks++
	}
	return first.v, first.m
}
