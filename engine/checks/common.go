// Package checks holds the per-property drivers: shape enumeration, running
// the harness instances, known-finding triage, native replay, evidence.
package checks

import (
	"verif/engine/run"
)

// PatternsFor returns the package patterns to load for a harness directory.
func PatternsFor(dir string) []string {
	switch dir {
	case "root":
		return []string{"."}
	default:
		return []string{"./" + dir}
	}
}

func PkgOfDir(dir string) string {
	if dir == "root" {
		return run.Module
	}
	return run.Module + "/" + dir
}

