package checks

import (
	"encoding/json"
	"flag"
	"fmt"
	"os"
	"path/filepath"
	"sort"
	"strings"
	"time"

	"verif/engine/gosym"
	"verif/engine/run"
	"verif/engine/sym"
)

// Ctx is what a property driver sees.
type Ctx struct {
	ID       string
	Tier     string
	Seed     int64
	RepoDir  string
	VerifDir string
	Workers  int
	S        *run.Session
	Open     []string // open known-finding ids of this property
	Known    *KnownFile
	Ev       *Evidence
	Verbose  bool

	tables map[string]map[string]int
}

// Spec describes one property check.
type Spec struct {
	ID          string
	Dirs        []string // harness directories to load
	Level       string
	Technique   string
	Jobs        func(c *Ctx) ([]run.Job, error)
	Owns        func(tag string) bool // which obligation tags belong to this property
	Extra       func(c *Ctx) ([]Finding, error)
	Bounds      map[string]interface{}
	Outside     []string
	Assumptions []string
	Trusted     []string
	Rule        string
	NeedCovers  []string // cover tags that must be reached at least once over the run (vacuity guard)
	CoverEvery  []string // cover tags that must be reached in every job (prefix match on job harness optional)
}

// Finding is a driver-side violation (no engine model involved).
type Finding struct {
	Tag    string
	What   string
	Known  string
	Replay map[string]interface{}
}

var Specs = map[string]*Spec{}

func register(s *Spec) { Specs[s.ID] = s }

type KnownEntry struct {
	ID       string `json:"id"`
	Property string `json:"property"`
	Status   string `json:"status"` // open | fixed
	Commit   string `json:"commit,omitempty"`
	What     string `json:"what"`
	Line     string `json:"line,omitempty"`
	Predicate string `json:"predicate,omitempty"`
	Witness  string `json:"witness,omitempty"`
}

type KnownFile struct {
	Findings []KnownEntry `json:"findings"`
}

func loadKnown(verifDir string) (*KnownFile, error) {
	b, err := os.ReadFile(filepath.Join(verifDir, "known_findings.json"))
	if err != nil {
		if os.IsNotExist(err) {
			return &KnownFile{}, nil
		}
		return nil, err
	}
	var k KnownFile
	if err := json.Unmarshal(b, &k); err != nil {
		return nil, err
	}
	return &k, nil
}

func (k *KnownFile) open(property string) []string {
	var ids []string
	for _, e := range k.Findings {
		if e.Property == property && e.Status == "open" {
			ids = append(ids, e.ID)
		}
	}
	return ids
}

func (k *KnownFile) entry(id string) *KnownEntry {
	for i := range k.Findings {
		if k.Findings[i].ID == id {
			return &k.Findings[i]
		}
	}
	return nil
}

// Evidence mirrors EVIDENCE.schema.json plus our own keys.
type Evidence struct {
	PropertyID  string                 `json:"property_id"`
	Tier        string                 `json:"tier"`
	Seed        int64                  `json:"seed"`
	Level       string                 `json:"level"`
	Coverage    map[string]interface{} `json:"coverage"`
	Assumptions []string               `json:"assumptions"`
	WallS       float64                `json:"wall_s"`
	Violations  int                    `json:"violations"`
	Verdict     string                 `json:"verdict"`
	Technique   string                 `json:"technique"`
	Extra       map[string]interface{} `json:"details"`
}

func tagClass(tag string) string {
	if i := strings.Index(tag, "@"); i >= 0 {
		return tag[:i]
	}
	return tag
}

func tagProp(tag string) string {
	if i := strings.Index(tag, "."); i >= 0 {
		return tag[:i]
	}
	return tag
}

func Main(args []string) int {
	if len(args) < 1 {
		fmt.Println("usage: verif check <ID> [--tier quick|thorough]")
		return 2
	}
	id := args[0]
	fs := flag.NewFlagSet("check", flag.ContinueOnError)
	tier := fs.String("tier", envOr("VERIF_TIER", "quick"), "quick|thorough")
	repo := fs.String("repo", "/repo", "repository")
	verif := fs.String("verif", "/verif", "verif dir")
	workers := fs.Int("workers", 14, "parallel workers")
	verbose := fs.Bool("v", false, "verbose")
	noEvidence := fs.Bool("no-evidence", false, "do not write the evidence file")
	if err := fs.Parse(args[1:]); err != nil {
		return 2
	}
	seed := int64(1)
	if s := os.Getenv("VERIF_SEED"); s != "" {
		fmt.Sscanf(s, "%d", &seed)
	}
	spec := Specs[id]
	if spec == nil {
		fmt.Printf("unknown property %s\n", id)
		return 2
	}
	if *tier != "quick" && *tier != "thorough" {
		*tier = "quick"
	}
	t0 := time.Now()
	c := &Ctx{ID: id, Tier: *tier, Seed: seed, RepoDir: *repo, VerifDir: *verif, Workers: *workers, Verbose: *verbose, tables: map[string]map[string]int{}}
	code, ev := runCheck(c, spec)
	ev.WallS = time.Since(t0).Seconds()
	if !*noEvidence {
		b, _ := json.MarshalIndent(ev, "", " ")
		os.MkdirAll(filepath.Join(*verif, "evidence"), 0o755)
		if err := os.WriteFile(filepath.Join(*verif, "evidence", id+".json"), b, 0o644); err != nil {
			fmt.Println("cannot write evidence:", err)
			return 2
		}
	}
	fmt.Printf("check %s tier=%s exit=%d wall=%.1fs verdict=%s\n", id, *tier, code, ev.WallS, ev.Verdict)
	return code
}

func envOr(k, d string) string {
	if v := os.Getenv(k); v != "" {
		return v
	}
	return d
}

type confirmed struct {
	job    run.Job
	v      run.ViolationOut
	file   string
	native *run.NativeResult
}

func runCheck(c *Ctx, spec *Spec) (int, *Evidence) {
	ev := &Evidence{PropertyID: spec.ID, Tier: c.Tier, Seed: c.Seed, Level: spec.Level, Coverage: map[string]interface{}{}, Assumptions: spec.Assumptions, Technique: spec.Technique, Extra: map[string]interface{}{}}
	c.Ev = ev
	fail := func(msg string) (int, *Evidence) {
		fmt.Println("INCONCLUSIVE:", msg)
		ev.Verdict = "inconclusive: " + msg
		fillMinimalCoverage(ev, spec)
		return 2, ev
	}
	known, err := loadKnown(c.VerifDir)
	if err != nil {
		return fail("known_findings.json: " + err.Error())
	}
	c.Known = known
	c.Open = known.open(spec.ID)

	var results []*run.JobResult
	var stats *run.SolverStats
	var jobs []run.Job
	if len(spec.Dirs) > 0 {
		var pats []string
		for _, d := range spec.Dirs {
			pats = append(pats, PatternsFor(d)...)
		}
		cfg := run.Config{RepoDir: c.RepoDir, VerifDir: c.VerifDir, Workers: c.Workers, Tier: c.Tier, Seed: c.Seed}
		s, err := run.NewSession(cfg, spec.Dirs, pats...)
		if err != nil {
			return fail("cannot load /repo with the harness overlay: " + err.Error())
		}
		c.S = s
		ev.Extra["load_s"] = s.LoadS
		if spec.Jobs != nil {
			jobs, err = spec.Jobs(c)
			if err != nil {
				return fail("job generation: " + err.Error())
			}
			for i := range jobs {
				jobs[i].Open = c.Open
				if jobs[i].Property == "" {
					jobs[i].Property = spec.ID
				}
			}
			last := time.Now()
			results, stats, err = s.RunJobs(jobs, func(done, total int) {
				if c.Verbose && time.Since(last) > 5*time.Second {
					last = time.Now()
					fmt.Printf("  ... %d/%d instances\n", done, total)
				}
			})
			if err != nil {
				return fail("engine: " + err.Error())
			}
		}
	}

	// ---- aggregate ----
	owns := spec.Owns
	if owns == nil {
		owns = func(tag string) bool { return tagProp(tag) == spec.ID }
	}
	var inconclusive []string
	paths, obligations, trivial, nontrivialJobs := 0, 0, 0, 0
	funcs := map[string]int{}
	funcSym := map[string]bool{}
	funcHarness := map[string]bool{}
	stubs := map[string]int{}
	covers := map[string]int{}
	pathKinds := map[string]int{}
	var viols []confirmed
	byClass := map[string]int{}
	var samples []interface{}
	for i, r := range results {
		if r == nil {
			inconclusive = append(inconclusive, fmt.Sprintf("job %s: no result", jobs[i].ID))
			continue
		}
		if r.Err != "" {
			inconclusive = append(inconclusive, fmt.Sprintf("job %s: %s", r.Job.ID, r.Err))
		}
		for _, m := range r.Inconclusive {
			inconclusive = append(inconclusive, fmt.Sprintf("job %s: %s", r.Job.ID, m))
		}
		paths += r.Paths
		nt := false
		for tag, n := range r.Asserts {
			if owns(tag) {
				obligations += n
				trivial += r.Trivial[tag]
				if n > r.Trivial[tag] {
					nt = true
				}
			}
		}
		if nt || r.Paths > 1 {
			nontrivialJobs++
		}
		for k, n := range r.FuncInstrs {
			funcs[k] += n
		}
		for k := range r.FuncSym {
			funcSym[k] = true
		}
		for k, h := range r.FuncHarness {
			if h {
				funcHarness[k] = true
			}
		}
		for k, n := range r.Stubs {
			stubs[k] += n
		}
		for k, n := range r.Covers {
			covers[k] += n
		}
		for k, n := range r.PathKinds {
			pathKinds[k] += n
		}
		for _, need := range spec.CoverEvery {
			if r.Covers[need] == 0 && r.Err == "" {
				inconclusive = append(inconclusive, fmt.Sprintf("job %s: cover point %s not reached (vacuous instance)", r.Job.ID, need))
			}
		}
		for _, v := range r.Violations {
			if !owns(v.Tag) {
				continue
			}
			byClass[tagClass(v.Tag)+"|"+v.Known]++
			viols = append(viols, confirmed{job: r.Job, v: v})
		}
		if len(samples) < 6 && (i%(len(results)/6+1) == 0) {
			s := map[string]interface{}{"instance": r.Job.ID, "harness": r.Job.Harness, "params": r.Job.Params, "paths": r.Paths, "obligations": sumOwned(r.Asserts, owns)}
			for tag, m := range r.CoverModels {
				s["witness_"+tag] = m
				break
			}
			samples = append(samples, s)
		}
	}
	for _, need := range spec.NeedCovers {
		if covers[need] == 0 && len(results) > 0 {
			inconclusive = append(inconclusive, "cover point "+need+" never reached (vacuity guard)")
		}
	}

	// ---- native replay of models ----
	const maxReplayPerClass = 6
	replayDir := filepath.Join(c.VerifDir, "replays", spec.ID)
	perClass := map[string]int{}
	var toReplay []int
	for i := range viols {
		k := tagClass(viols[i].v.Tag) + "|" + viols[i].v.Known
		if perClass[k] >= maxReplayPerClass {
			continue
		}
		perClass[k]++
		f, err := run.WriteReplay(replayDir, viols[i].job, viols[i].v)
		if err != nil {
			return fail("cannot write replay file: " + err.Error())
		}
		viols[i].file = f
		toReplay = append(toReplay, i)
	}
	mismatches := 0
	replayed := 0
	if len(toReplay) > 0 {
		rp, err := run.NewReplayer(c.RepoDir, c.VerifDir)
		if err != nil {
			return fail(err.Error())
		}
		defer rp.Close()
		byPkg := map[string][]int{}
		for _, i := range toReplay {
			byPkg[viols[i].job.Pkg] = append(byPkg[viols[i].job.Pkg], i)
		}
		for pkg, idxs := range byPkg {
			var files []string
			for _, i := range idxs {
				files = append(files, viols[i].file)
			}
			nres, err := rp.Run(pkg, files)
			if err != nil {
				return fail("native replay: " + err.Error())
			}
			for _, i := range idxs {
				viols[i].native = nres[viols[i].file]
				replayed++
			}
		}
		ev.Extra["native_build_s"] = rp.BuildS
	}

	newViol := 0
	knownSeen := map[string]string{}
	var violLines []string
	for i := range viols {
		v := &viols[i]
		if v.native == nil {
			continue
		}
		if !v.native.Failed(v.v.Tag) {
			mismatches++
			inconclusive = append(inconclusive, fmt.Sprintf("ENGINE-MISMATCH: model for %s (%s) did not reproduce natively: fails=%v panic=%q err=%q file=%s", v.v.Tag, v.job.ID, v.native.Fails, v.native.Panic, v.native.Error, v.file))
			continue
		}
		// observation agreement
		for k, want := range v.v.Obs {
			if got, ok := v.native.Obs[k]; ok && got != want {
				inconclusive = append(inconclusive, fmt.Sprintf("ENGINE-MISMATCH: observation %s engine=%s native=%s (%s)", k, want, got, v.file))
			}
		}
		if v.v.Known != "" {
			if _, ok := knownSeen[v.v.Known]; !ok {
				knownSeen[v.v.Known] = v.file
			}
			continue
		}
		newViol++
		violLines = append(violLines, fmt.Sprintf("VIOLATION property=%s replay=%s", spec.ID, v.file))
	}

	// ---- driver-side obligations ----
	var extraFindings []Finding
	if spec.Extra != nil {
		fs, err := spec.Extra(c)
		if err != nil {
			inconclusive = append(inconclusive, "driver-side obligations: "+err.Error())
		}
		extraFindings = fs
		for _, f := range fs {
			if f.Known != "" && contains(c.Open, f.Known) {
				if _, ok := knownSeen[f.Known]; !ok {
					knownSeen[f.Known] = "-"
				}
				continue
			}
			os.MkdirAll(replayDir, 0o755)
			rf := map[string]interface{}{"property": spec.ID, "harness": "driver", "expect": map[string]string{"tag": f.Tag}, "what": f.What, "data": f.Replay}
			b, _ := json.MarshalIndent(rf, "", " ")
			p := filepath.Join(replayDir, fmt.Sprintf("driver-%s-%08x.json", strings.ReplaceAll(tagClass(f.Tag), "/", "_"), fnv(b)))
			os.WriteFile(p, b, 0o644)
			newViol++
			violLines = append(violLines, fmt.Sprintf("VIOLATION property=%s replay=%s", spec.ID, p))
			fmt.Printf("  %s: %s\n", f.Tag, f.What)
		}
	}

	// ---- report ----
	sort.Strings(violLines)
	shown := 0
	for _, l := range violLines {
		if shown < 10 {
			fmt.Println(l)
		}
		shown++
	}
	if shown > 10 {
		fmt.Printf("(%d more violation replays not printed)\n", shown-10)
	}
	var kids []string
	for id := range knownSeen {
		kids = append(kids, id)
	}
	sort.Strings(kids)
	for _, id := range kids {
		what := id
		if e := known.entry(id); e != nil {
			what = id + " " + e.What
		}
		fmt.Printf("KNOWN-FINDING: property=%s %s (replay=%s)\n", spec.ID, what, knownSeen[id])
	}
	for i, m := range inconclusive {
		if i < 12 {
			fmt.Println("INCONCLUSIVE:", m)
		}
	}

	// ---- evidence ----
	var fnames []string
	for k := range funcs {
		fnames = append(fnames, k)
	}
	sort.Strings(fnames)
	var fenc, henc []map[string]interface{}
	for _, k := range fnames {
		if funcHarness[k] {
			henc = append(henc, map[string]interface{}{"name": k, "ssa_instructions_executed": funcs[k]})
			continue
		}
		fenc = append(fenc, map[string]interface{}{"name": k, "ssa_instructions_executed": funcs[k], "branched_on_symbolic": funcSym[k]})
	}
	type slow struct {
		ID string  `json:"instance"`
		S  float64 `json:"wall_s"`
	}
	var slows []slow
	for _, r := range results {
		if r != nil {
			slows = append(slows, slow{r.Job.ID, round2(r.WallS)})
		}
	}
	sort.Slice(slows, func(i, j int) bool { return slows[i].S > slows[j].S })
	if len(slows) > 8 {
		slows = slows[:8]
	}
	ev.Extra["slowest_instances"] = slows
	ev.Extra["functions_encoded"] = fenc
	ev.Extra["harness_functions_executed"] = henc
	ev.Extra["stubs_and_summaries"] = stubs
	ev.Extra["covers"] = covers
	ev.Extra["path_outcomes"] = pathKinds
	ev.Extra["bounds"] = spec.Bounds
	ev.Extra["outside_claim"] = spec.Outside
	ev.Extra["violation_classes"] = byClass
	ev.Extra["known_findings_seen"] = kids
	ev.Extra["inconclusive"] = inconclusive
	ev.Extra["engine_mismatches"] = mismatches
	ev.Extra["driver_findings"] = len(extraFindings)
	if stats != nil {
		q := map[string]interface{}{}
		sat, unsat, unk := 0, 0, 0
		for n, p := range stats.By {
			q[n] = map[string]interface{}{"queries": p.Queries, "sat": p.Sat, "unsat": p.Unsat, "unknown": p.Unknown, "errors": p.Errors, "solver_s": round2(p.WallS)}
			sat += p.Sat
			unsat += p.Unsat
			unk += p.Unknown
		}
		ev.Extra["solvers"] = q
		ev.Extra["queries"] = map[string]int{"sat": sat, "unsat": unsat, "unknown": unk}
		ev.Extra["verdict_queries"] = map[string]int{"decided": stats.Decided, "cross_checked_by_second_solver": stats.CrossChecked, "decided_by_one_solver": stats.DecidedByOne, "undecided": stats.Inconclusive, "fallbacks": stats.Fallbacks}
	}
	cov := ev.Coverage
	cov["evaluations"] = paths + len(extraFindingsOrZero(spec, c))
	if paths == 0 {
		cov["evaluations"] = intFrom(cov["evaluations"]) + intFrom(ev.Extra["driver_cases"])
	}
	cov["distinct_nontrivial"] = nontrivialJobs + intFrom(ev.Extra["driver_nontrivial"])
	cov["rule"] = spec.Rule
	if len(samples) == 0 {
		samples = append(samples, map[string]interface{}{"note": "driver-side obligations only; see details"})
	}
	if ds, ok := ev.Extra["driver_samples"].([]interface{}); ok {
		samples = append(samples, ds...)
	}
	cov["samples"] = samples
	cov["obligations"] = obligations + intFrom(ev.Extra["driver_obligations"])
	cov["discharged"] = obligations + intFrom(ev.Extra["driver_obligations"]) - len(viols) - len(extraFindings)
	cov["obligations_trivially_true"] = trivial
	cov["instances"] = len(jobs) + intFrom(ev.Extra["driver_instances"])
	cov["paths"] = paths + intFrom(ev.Extra["driver_paths"])
	cov["exhaustive"] = false
	switch spec.Level {
	case "translation_validation":
		cov["programs"] = len(jobs)
		cov["disagreements_checked"] = replayed
	case "model_checking":
		cov["states"] = maxInt(paths+intFrom(ev.Extra["driver_cases"]), 1)
		cov["transitions"] = maxInt(totalInstr(funcs)+intFrom(ev.Extra["driver_obligations"]), 1)
		cov["traces_validated_against_impl"] = replayed
	case "other":
		cov["explanation"] = spec.Rule
	}
	cov["trusted_base"] = spec.Trusted
	cov["checker_cmd"] = fmt.Sprintf("./bin/verif check %s --tier %s", spec.ID, c.Tier)
	ev.Violations = newViol

	switch {
	case newViol > 0:
		ev.Verdict = "violated"
		return 1, ev
	case len(inconclusive) > 0:
		ev.Verdict = "inconclusive"
		return 2, ev
	}
	if len(kids) > 0 {
		ev.Verdict = "holds except for listed known findings"
	} else {
		ev.Verdict = "holds within the stated bounds"
	}
	return 0, ev
}

func extraFindingsOrZero(spec *Spec, c *Ctx) []int { return nil }

func fillMinimalCoverage(ev *Evidence, spec *Spec) {
	ev.Coverage["evaluations"] = 0
	ev.Coverage["distinct_nontrivial"] = 0
	ev.Coverage["rule"] = spec.Rule
	ev.Coverage["samples"] = []interface{}{}
	ev.Coverage["explanation"] = "run did not complete"
}

func sumOwned(m map[string]int, owns func(string) bool) int {
	n := 0
	for k, v := range m {
		if owns(k) {
			n += v
		}
	}
	return n
}

func totalInstr(m map[string]int) int {
	n := 0
	for _, v := range m {
		n += v
	}
	return n
}

func maxInt(a, b int) int {
	if a > b {
		return a
	}
	return b
}

func intFrom(v interface{}) int {
	switch x := v.(type) {
	case int:
		return x
	case float64:
		return int(x)
	}
	return 0
}

func round2(f float64) float64 { return float64(int(f*100+0.5)) / 100 }

func contains(xs []string, x string) bool {
	for _, y := range xs {
		if y == x {
			return true
		}
	}
	return false
}

func fnv(b []byte) uint32 {
	h := uint32(2166136261)
	for _, c := range b {
		h ^= uint32(c)
		h *= 16777619
	}
	return h
}

// ArchTable reads a syscall table out of the interpreted package state.
func (c *Ctx) ArchTable(varName string) (map[string]int, error) {
	if t, ok := c.tables[varName]; ok {
		return t, nil
	}
	w, err := c.S.NewWorker()
	if err != nil {
		return nil, err
	}
	defer w.Close()
	t, err := readArchTable(w.In, varName)
	if err != nil {
		return nil, err
	}
	c.tables[varName] = t
	return t, nil
}

func readArchTable(in *gosym.Interp, varName string) (map[string]int, error) {
	pkg := in.Prog.ImportedPackage(run.Module + "/arch")
	if pkg == nil {
		return nil, fmt.Errorf("arch package not loaded")
	}
	g := pkg.Var(varName)
	if g == nil {
		return nil, fmt.Errorf("arch.%s not found", varName)
	}
	cell := in.Globals[g]
	if cell == nil {
		return nil, fmt.Errorf("arch.%s not initialised", varName)
	}
	p, ok := cell.V.(gosym.Ptr)
	if !ok || p.C == nil {
		return nil, fmt.Errorf("arch.%s is nil", varName)
	}
	// Info{Name, ID, SyscallNames, SyscallNumbers, SeccompMask}: find the map[string]int field
	out := map[string]int{}
	for _, k := range p.C.Kids {
		m, ok := k.V.(gosym.Map)
		if !ok || m.M == nil {
			continue
		}
		for _, e := range m.M.Ent {
			name, isStr := e.K.(string)
			num, isT := e.V.(*sym.Term)
			if isStr && isT && num.IsConst() {
				out[name] = int(int64(num.C))
			}
		}
		if len(out) > 0 {
			return out, nil
		}
	}
	return nil, fmt.Errorf("arch.%s: no name table", varName)
}

// ReplayMain re-runs one replay file natively.
func ReplayMain(args []string) int {
	fs := flag.NewFlagSet("replay", flag.ContinueOnError)
	repo := fs.String("repo", "/repo", "repository")
	verif := fs.String("verif", "/verif", "verif dir")
	if len(args) < 1 {
		fmt.Println("usage: verif replay <file>")
		return 2
	}
	file := args[0]
	fs.Parse(args[1:])
	b, err := os.ReadFile(file)
	if err != nil {
		fmt.Println(err)
		return 2
	}
	var rf run.ReplayFile
	if err := json.Unmarshal(b, &rf); err != nil {
		fmt.Println(err)
		return 2
	}
	if rf.Harness == "driver" {
		fmt.Printf("driver-side finding (%s): %s\nre-run: ./bin/verif check %s\n", rf.Expect.Tag, rf.What, rf.Property)
		return Main([]string{rf.Property, "--no-evidence", "--repo", *repo, "--verif", *verif})
	}
	rp, err := run.NewReplayer(*repo, *verif)
	if err != nil {
		fmt.Println(err)
		return 2
	}
	defer rp.Close()
	abs, _ := filepath.Abs(file)
	res, err := rp.Run(rf.Pkg, []string{abs})
	if err != nil {
		fmt.Println(err)
		return 2
	}
	n := res[abs]
	fmt.Printf("native replay of %s (%s, harness %s)\n  failed assertions: %v\n  observations: %v\n  panic: %q\n", file, rf.Property, rf.Harness, n.Fails, n.Obs, n.Panic)
	if n.Error != "" {
		fmt.Println("  error:", n.Error)
		return 2
	}
	if n.Failed(rf.Expect.Tag) {
		fmt.Printf("VIOLATION property=%s replay=%s\n", rf.Property, file)
		return 1
	}
	fmt.Println("the recorded violation does not reproduce on the current tree")
	return 0
}
