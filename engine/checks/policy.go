package checks

import (
	"strings"
	"fmt"
	"math/rand"

	"verif/engine/run"
)

var archVars = map[string]string{"x86_64": "X86_64", "i386": "I386", "arm": "ARM", "aarch64": "AARCH64"}
var archOrder = []string{"x86_64", "i386", "arm", "aarch64"}

// smallNames picks four concrete names of a table: number 0 (or the lowest),
// the next one, the highest number, and the third lowest.
func smallNames(tab map[string]int) []string {
	ns := sortedNamesByNumber(tab)
	return []string{ns[0], ns[1], ns[len(ns)-1], ns[2], ns[len(ns)/2], ns[3]}
}

type policyFamily struct {
	prop     string
	condOnly bool // only shapes with conditions
	nameOnly bool // only shapes without conditions
}

func smallOps(tier string) []string {
	return []string{"Equal", "GreaterThan"}
}

// smallJobs enumerates PS-small for the tier.
func smallJobs(c *Ctx, fam policyFamily, W int, ops []string) ([]run.Job, error) {
	var jobs []run.Job
	shapes := EnumPolicyShapes(W, ops, true)
	archs := []string{"x86_64"}
	if c.Tier == "thorough" {
		archs = []string{"x86_64", "arm"}
	}
	for _, a := range archs {
		tab, err := c.ArchTable(archVars[a])
		if err != nil {
			return nil, err
		}
		names := smallNames(tab)
		for i, s := range shapes {
			if fam.condOnly && !s.HasCond() {
				continue
			}
			if fam.nameOnly && s.HasCond() {
				continue
			}
			bo := 0
			if c.Tier == "thorough" && i%2 == 1 {
				bo = 1
			}
			p := s.Params(a, bo, names, true)
			p["props"] = fam.prop
			jobs = append(jobs, run.Job{ID: fmt.Sprintf("small/%s/%d:%s", a, i, s.String()), Pkg: run.Module, Harness: "H_Policy", Params: p})
		}
	}
	return jobs, nil
}

func chunk(ns []string, k int) [][]string {
	var out [][]string
	n := len(ns)
	for i := 0; i < k; i++ {
		out = append(out, ns[i*n/k:(i+1)*n/k])
	}
	return out
}

// largeNameJobs: whole tables in 1..3 groups and name-list lengths around the
// switch of the architecture jump encoding.
func largeNameJobs(c *Ctx, prop string, archs []string, boundary []int) ([]run.Job, error) {
	var jobs []run.Job
	for _, a := range archs {
		tab, err := c.ArchTable(archVars[a])
		if err != nil {
			return nil, err
		}
		ns := sortedNamesByNumber(tab)
		for k := 1; k <= 3; k++ {
			var gs []LargeGroup
			for _, part := range chunk(ns, k) {
				gs = append(gs, LargeGroup{Names: part})
			}
			p := LargeParams(a, 0, gs)
			p["props"] = prop
			jobs = append(jobs, run.Job{ID: fmt.Sprintf("large/%s/table-in-%d-groups(%d names)", a, k, len(ns)), Pkg: run.Module, Harness: "H_Policy", Params: p, Weight: len(ns)})
		}
		// unbalanced splits: short early groups in front of a long one (their jumps are bridged while the
		// long group's are in reach of the tail), a long group in the middle, and several one-name groups
		// whose returns compete for the place behind the same jump (needs a third resolution pass), a one-name
		// group in front of a long one, and a first jump exactly 256 away from its return (121 + 254 on x86_64)
		if a == archs[0] && len(ns) > 340 {
			for ui, sizes := range [][]int{{10, 10, 310}, {3, 300, 3, 30}, {2, 1, 1, 300}, {1, 339}, {121, 254}} {
				var gs []LargeGroup
				at := 0
				for _, sz := range sizes {
					gs = append(gs, LargeGroup{Names: ns[at : at+sz]})
					at += sz
				}
				p := LargeParams(a, 0, gs)
				p["props"] = prop
				jobs = append(jobs, run.Job{ID: fmt.Sprintf("large/%s/unbalanced%d%v", a, ui, sizes), Pkg: run.Module, Harness: "H_Policy", Params: p, Weight: 330})
			}
		}
		for _, n := range boundary {
			if n > len(ns) {
				continue
			}
			p := LargeParams(a, 0, []LargeGroup{{Names: ns[:n]}})
			p["props"] = prop
			jobs = append(jobs, run.Job{ID: fmt.Sprintf("large/%s/%d-names", a, n), Pkg: run.Module, Harness: "H_Policy", Params: p, Weight: n})
			// the same boundary with a second group behind it
			if n%3 == 0 {
				p2 := LargeParams(a, 0, []LargeGroup{{Names: ns[:n]}, {Names: ns[n : n+2]}})
				p2["props"] = prop
				jobs = append(jobs, run.Job{ID: fmt.Sprintf("large/%s/%d-names+group", a, n), Pkg: run.Module, Harness: "H_Policy", Params: p2, Weight: n})
			}
		}
	}
	return jobs, nil
}

type condLayout struct{ lists, conds int }

// largeCondJobs: long conditional entries (lists x conditions) placed
// first/middle/last among unconditional names, followed by a second group,
// and many conditional syscalls.
func largeCondJobs(c *Ctx, prop string, arch string, layouts []condLayout, many int) ([]run.Job, error) {
	tab, err := c.ArchTable(archVars[arch])
	if err != nil {
		return nil, err
	}
	ns := sortedNamesByNumber(tab)
	ops := []string{"Equal", "GreaterThan", "BitsNotSet", "LessOrEqual", "NotEqual", "BitsSet", "LessThan", "GreaterOrEqual"}
	var jobs []run.Job
	mkEntries := func(name string, l condLayout, seed int) []LargeEntry {
		var es []LargeEntry
		for i := 0; i < l.lists; i++ {
			var cs []string
			for k := 0; k < l.conds; k++ {
				cs = append(cs, ops[(seed+i+k)%len(ops)])
			}
			es = append(es, LargeEntry{Name: name, Conds: cs})
		}
		return es
	}
	for li, l := range layouts {
		for place := 0; place < 3; place++ {
			long := mkEntries(ns[1], l, li)
			other := LargeEntry{Name: ns[0], Conds: []string{"Equal"}}
			var g LargeGroup
			switch place {
			case 0: // long entry first, then another conditional entry
				g = LargeGroup{Names: []string{ns[3]}, Entries: append(append([]LargeEntry{}, long...), other)}
			case 1: // middle
				g = LargeGroup{Names: []string{ns[3], ns[4]}, Entries: append(append([]LargeEntry{other}, long...), LargeEntry{Name: ns[2], Conds: []string{"GreaterThan"}})}
			default: // last
				g = LargeGroup{Entries: append([]LargeEntry{other}, long...)}
			}
			g2 := LargeGroup{Names: []string{ns[5]}, Entries: []LargeEntry{{Name: ns[6], Conds: []string{"Equal"}}}}
			p := LargeParams(arch, 0, []LargeGroup{g, g2})
			p["props"] = prop
			jobs = append(jobs, run.Job{ID: fmt.Sprintf("large/%s/%dx%d-lists-place%d", arch, l.lists, l.conds, place), Pkg: run.Module, Harness: "H_Policy", Params: p, Weight: 10 * l.lists * l.conds})
		}
	}
	if many > 0 && many <= len(ns) {
		var es []LargeEntry
		for i := 0; i < many; i++ {
			es = append(es, LargeEntry{Name: ns[i], Conds: []string{ops[i%len(ops)]}})
		}
		p := LargeParams(arch, 0, []LargeGroup{{Entries: es}, {Names: []string{ns[len(ns)-1]}}})
		p["props"] = prop
		jobs = append(jobs, run.Job{ID: fmt.Sprintf("large/%s/%d-conditional-syscalls", arch, many), Pkg: run.Module, Harness: "H_Policy", Params: p, Weight: 10 * many})
	}
	return jobs, nil
}

func rotatedArch(seed int64) string {
	others := []string{"i386", "arm", "aarch64"}
	return others[int(uint64(seed)%3)]
}

var boundaryNames = []int{248, 249, 250, 251, 252, 253, 254, 255, 256, 257, 258, 259}

var policyOutside = []string{
	"policy structures heavier than the stated weight that are not in the large family",
	"programs longer than 4096 instructions",
	"arch x32 as the policy architecture",
	"the running kernel: its verifier and interpreter are represented by the KMI model (validated by selftest, not decided)",
}

var policyTrusted = []string{
	"harness/root/zz_verif_model.go: KMI (kernel cBPF model) and refDecide (reference meaning), ~350 lines",
	"gosym (SSA interpreter) and sym (term simplifier): every counterexample is replayed natively; selftest runs the suite's policies through engine and native build",
	"z3 4.8.12 / z3 5.1.0 / cvc5 1.0.3: verdict-bearing queries are cross-checked by a second solver",
}

var policyAssumptions = []string{
	"default action is one of the seven kernel actions (Validate's precondition)",
	"argument index <= 5 where the index is symbolic (Validate's precondition)",
	"group actions are arbitrary 32-bit words",
	"event: nr, arch, instruction pointer and six arguments are unconstrained",
}

func init() {
	register(&Spec{
		ID: "C01", Dirs: []string{"root"}, Level: "translation_validation",
		Technique: "symbolic execution of the real compiler (go/ssa -> SMT-LIB bit-vectors); per policy shape one equivalence query compiled-filter == reference decision over all events and all action words, decided by z3/cvc5; models replayed natively",
		Rule:      "one instance = one policy shape (concrete structure and names; event, default action and group actions symbolic). Non-trivial = at least one obligation needed a solver verdict.",
		Jobs: func(c *Ctx) ([]run.Job, error) {
			W := 7
			archs := []string{"x86_64", rotatedArch(c.Seed)}
			if c.Tier == "thorough" {
				W = 9
				archs = archOrder
			}
			jobs, err := smallJobs(c, policyFamily{prop: "C01", nameOnly: true}, W, smallOps(c.Tier))
			if err != nil {
				return nil, err
			}
			if c.Tier == "thorough" {
				// a wider name-only family: up to 4 groups, 3 names per group, 5 distinct names, weight <= 10
				wide := EnumPolicyShapesLim(10, nil, true, ShapeLimits{Groups: 4, Names: 3, Entries: 0, Conds: 0, DistinctNames: 5})
				for ai, a := range archOrder {
					tab, err := c.ArchTable(archVars[a])
					if err != nil {
						return nil, err
					}
					names := smallNames(tab)
					for i, s := range wide {
						if i%4 != ai {
							continue // each shape on one architecture, rotating
						}
						p := s.Params(a, 0, names, true)
						p["props"] = "C01"
						jobs = append(jobs, run.Job{ID: fmt.Sprintf("wide/%s/%d:%s", a, i, s.String()), Pkg: run.Module, Harness: "H_Policy", Params: p})
					}
				}
			}
			lj, err := largeNameJobs(c, "C01", archs, boundaryNames)
			if err != nil {
				return nil, err
			}
			return append(jobs, lj...), nil
		},
		CoverEvery: []string{"assembled"},
		NeedCovers: []string{"cover.group0", "cover.group1", "cover.default"},
		Bounds:     map[string]interface{}{"small": "all name-only structures with <=3 groups, <=2 names per group, every equality pattern over <=4 names (weight <=7 quick, <=9 thorough); thorough also all name-only structures with <=4 groups, <=3 names per group, <=5 distinct names, weight <=10 (each on one of the four architectures)", "large": "whole table in 1, 2 and 3 groups; 248..259 names (around the 255/256 switch of the architecture jump), also followed by a second group", "architectures": "quick: x86_64 + one seed-rotated; thorough: x86_64, i386, arm, aarch64", "values": "all events, all default actions, all group action words"},
		Outside:    policyOutside, Assumptions: policyAssumptions, Trusted: policyTrusted,
	})
	register(&Spec{
		ID: "C03", Dirs: []string{"root"}, Level: "translation_validation",
		Technique: "symbolic execution of the real compiler; per policy shape with conditions one equivalence query against the reference decision (AND within a list, OR across lists, fall-through to later entries/groups/default) over all events, operands, argument indices and actions",
		Rule:      "one instance = one policy shape with at least one conditional entry; operands, argument indices, event and actions symbolic.",
		Jobs: func(c *Ctx) ([]run.Job, error) {
			W := 7
			layouts := []condLayout{{64, 1}, {22, 3}}
			many := 0
			if c.Tier == "thorough" {
				W = 9
				layouts = []condLayout{{64, 1}, {70, 1}, {22, 3}, {11, 6}, {130, 1}}
				many = 300
			}
			jobs, err := smallJobs(c, policyFamily{prop: "C03", condOnly: true}, W, smallOps(c.Tier))
			if err != nil {
				return nil, err
			}
			if c.Tier == "thorough" {
				// the small shapes once more with other pairs of operations (all eight occur)
				for k, ops := range [][]string{{"NotEqual", "LessThan"}, {"GreaterOrEqual", "LessOrEqual"}, {"BitsSet", "BitsNotSet"}} {
					extra, err := smallJobs(c, policyFamily{prop: "C03", condOnly: true}, 7, ops)
					if err != nil {
						return nil, err
					}
					for i := range extra {
						extra[i].ID = fmt.Sprintf("ops%d/", k) + extra[i].ID
					}
					jobs = append(jobs, extra...)
				}
				// third operation shape up to weight 8
				extra := EnumPolicyShapes(8, []string{"Equal", "GreaterThan", "BitsNotSet"}, true)
				tab, err := c.ArchTable("X86_64")
				if err != nil {
					return nil, err
				}
				names := smallNames(tab)
				for i, s := range extra {
					uses := false
					for _, g := range s.Groups {
						for _, e := range g.ents {
							for _, o := range e.ops {
								if o == "BitsNotSet" {
									uses = true
								}
							}
						}
					}
					if !uses {
						continue
					}
					p := s.Params("x86_64", i%2, names, true)
					p["props"] = "C03"
					jobs = append(jobs, run.Job{ID: fmt.Sprintf("small3/x86_64/%d:%s", i, s.String()), Pkg: run.Module, Harness: "H_Policy", Params: p})
				}
			}
			lj, err := largeCondJobs(c, "C03", "x86_64", layouts, many)
			if err != nil {
				return nil, err
			}
			// every PAIR of operations in one list (and the mask operations three times), argument indices
			// symbolic: "several conditions may constrain the same argument" for all 64 combinations
			tab, err := c.ArchTable(archVars["x86_64"])
			if err != nil {
				return nil, err
			}
			ns := sortedNamesByNumber(tab)
			allOps := []string{"Equal", "NotEqual", "GreaterThan", "LessThan", "GreaterOrEqual", "LessOrEqual", "BitsSet", "BitsNotSet"}
			lists := [][]string{{"BitsSet", "BitsSet", "BitsSet"}, {"BitsNotSet", "BitsNotSet", "BitsNotSet"}, {"BitsSet", "Equal", "BitsSet"}}
			for _, o1 := range allOps {
				for _, o2 := range allOps {
					lists = append(lists, []string{o1, o2})
				}
			}
			for _, l := range lists {
				g := LargeGroup{Names: []string{ns[3]}, Entries: []LargeEntry{{Name: ns[1], Conds: l}}}
				g2 := LargeGroup{Names: []string{ns[1], ns[5]}}
				p := LargeParams("x86_64", 0, []LargeGroup{g, g2})
				for ci := range l {
					p[fmt.Sprintf("g0.e0.c%d.arg", ci)] = -1
				}
				p["props"] = "C03"
				lj = append(lj, run.Job{ID: fmt.Sprintf("oplist/x86_64/%s", strings.Join(l, "+")), Pkg: run.Module, Harness: "H_Policy", Params: p})
			}
			return append(jobs, lj...), nil
		},
		CoverEvery: []string{"assembled"},
		NeedCovers: []string{"cover.group0", "cover.group1", "cover.default"},
		Bounds:     map[string]interface{}{"small": "all structures with conditions: <=3 groups, <=2 unconditional names and <=2 conditional entries per group (same name twice = merged OR-lists), <=2 conditions per list, operations {Equal, GreaterThan} (+BitsNotSet to weight 8 in thorough; thorough also repeats weight <=7 with {NotEqual,LessThan}, {GreaterOrEqual,LessOrEqual}, {BitsSet,BitsNotSet}, so all eight operations occur); weight <=7 quick, <=9 thorough", "large": "quick: 64x1 and 22x3 lists x conditions; thorough: also 70x1, 11x6, 130x1 and 300 conditional syscalls; each first/middle/last among other entries and followed by a second group", "oplists": "all 64 ordered pairs of operations in one list, and three lists of three with repeated mask operations, argument indices symbolic (the conditions may constrain the same argument)", "values": "all events, operands, argument indices (small shapes), actions"},
		Outside:    policyOutside, Assumptions: policyAssumptions, Trusted: policyTrusted,
	})
	register(&Spec{
		ID: "C04", Dirs: []string{"root"}, Level: "translation_validation",
		Technique: "symbolic execution of the real compiler; per shape two implications over all events (foreign architecture => default; x32 bit on x86_64 => ERRNO|ENOSYS) plus a reachability obligation on the KMI reach predicates (no argument load reached), decided by z3/cvc5",
		Rule:      "one instance = one policy shape; the event is unconstrained except for the premise of each implication.",
		Jobs: func(c *Ctx) ([]run.Job, error) {
			W := 6
			archs := []string{"x86_64", rotatedArch(c.Seed)}
			layouts := []condLayout{{64, 1}}
			if c.Tier == "thorough" {
				W = 8
				archs = archOrder
				layouts = []condLayout{{64, 1}, {22, 3}, {130, 1}}
			}
			jobs, err := smallJobs(c, policyFamily{prop: "C04"}, W, smallOps(c.Tier))
			if err != nil {
				return nil, err
			}
			lj, err := largeNameJobs(c, "C04", archs, boundaryNames)
			if err != nil {
				return nil, err
			}
			jobs = append(jobs, lj...)
			cj, err := largeCondJobs(c, "C04", "x86_64", layouts, 0)
			if err != nil {
				return nil, err
			}
			return append(jobs, cj...), nil
		},
		CoverEvery: []string{"assembled", "cover.foreign"},
		NeedCovers: []string{"cover.x32.low", "cover.x32.below"},
		Bounds:     map[string]interface{}{"small": "all structures, weight <=6 quick / <=8 thorough", "large": "whole tables in 1..3 groups, 248..259 names (both encodings of the architecture jump, jumpN around 255/256), long conditional lists", "values": "all 2^32 architecture words, all syscall numbers, all arguments"},
		Outside:    policyOutside, Assumptions: policyAssumptions, Trusted: policyTrusted,
	})
	register(&Spec{
		ID: "C05", Dirs: []string{"root"}, Level: "translation_validation",
		Technique: "symbolic execution of the real compiler and of x/net/bpf's raw encoder; the emitted program is checked by a model of bpf_check_classic + seccomp_check_filter (load offsets as bit-vector obligations under a symbolic argument index) and every RET operand against the closed return set",
		Rule:      "one instance = one policy shape including degenerate ones (empty groups, single names, maximal lists).",
		Jobs: func(c *Ctx) ([]run.Job, error) {
			W := 7
			archs := []string{"x86_64", rotatedArch(c.Seed)}
			layouts := []condLayout{{64, 1}, {22, 3}}
			if c.Tier == "thorough" {
				W = 8
				archs = archOrder
				layouts = []condLayout{{64, 1}, {70, 1}, {22, 3}, {11, 6}, {130, 1}}
			}
			jobs, err := smallJobs(c, policyFamily{prop: "C05"}, W, smallOps(c.Tier))
			if err != nil {
				return nil, err
			}
			for i := range jobs {
				// argument indices are arbitrary 32-bit values here: whatever the compiler ACCEPTS must be valid
				jobs[i].Params["anyarg"] = 1
			}
			lj, err := largeNameJobs(c, "C05", archs, boundaryNames)
			if err != nil {
				return nil, err
			}
			jobs = append(jobs, lj...)
			cj, err := largeCondJobs(c, "C05", "x86_64", layouts, 0)
			if err != nil {
				return nil, err
			}
			jobs = append(jobs, cj...)
			// degenerate: all groups empty, on every architecture
			for _, a := range archOrder {
				for k := 1; k <= 3; k++ {
					var gs []LargeGroup
					for i := 0; i < k; i++ {
						gs = append(gs, LargeGroup{})
					}
					p := LargeParams(a, 0, gs)
					p["props"] = "C05"
					jobs = append(jobs, run.Job{ID: fmt.Sprintf("degenerate/%s/%d-empty-groups", a, k), Pkg: run.Module, Harness: "H_Policy", Params: p})
				}
			}
			return jobs, nil
		},
		Owns:       func(tag string) bool { return tagProp(tag) == "C05" },
		Bounds:     map[string]interface{}{"small": "all structures incl. empty groups, weight <=7 quick / <=8 thorough, argument indices arbitrary 32-bit values (no validity assumption: whatever is accepted must be valid)", "large": "whole tables, 248..259 names, long conditional lists, all-empty policies on four architectures", "limit": "programs <= 4096 instructions (longer ones are outside by the statement)"},
		Outside:    policyOutside, Assumptions: policyAssumptions, Trusted: policyTrusted,
	})
}

var _ = rand.Int
