package checks

import (
	"fmt"
	"math/rand"
	"strings"

	"verif/engine/run"
)

// loadShapes: the policy shapes used by the syscall-boundary harness.
func loadShapes(c *Ctx, prop string, large bool) ([]run.Job, error) {
	tab, err := c.ArchTable("X86_64")
	if err != nil {
		return nil, err
	}
	names := smallNames(tab)
	ns := sortedNamesByNumber(tab)
	var jobs []run.Job
	// 12 small shapes: every 1- and 2-group structure of weight <= 4 would be too many; pick by stride
	shapes := EnumPolicyShapes(6, []string{"Equal", "GreaterThan"}, true)
	stride := len(shapes) / 12
	if c.Tier == "thorough" {
		stride = len(shapes) / 60
	}
	for i := 0; i < len(shapes); i += stride {
		s := shapes[(i+int(c.Seed))%len(shapes)]
		empty := true
		for _, g := range s.Groups {
			if g.u+len(g.ents) > 0 {
				empty = false
			}
		}
		p := s.Params("x86_64", 0, names, false)
		p["props"] = prop
		jobs = append(jobs, run.Job{ID: fmt.Sprintf("load/%d:%s", i, s.String()), Pkg: run.Module, Harness: "H_Load", Params: p})
		if !empty && len(s.Groups[0].ents) == 0 && i%(3*stride) == 0 {
			q := s.Params("x86_64", 0, names, false)
			q["props"] = prop
			q["invalid"] = 1
			jobs = append(jobs, run.Job{ID: fmt.Sprintf("load-invalid/%d:%s", i, s.String()), Pkg: run.Module, Harness: "H_Load", Params: q})
		}
	}
	// conditions on each of the six arguments, two groups
	var es []LargeEntry
	for i := 0; i < 6; i++ {
		es = append(es, LargeEntry{Name: ns[i], Conds: []string{allOps[i], allOps[(i+3)%8]}})
	}
	p := LargeParams("x86_64", 0, []LargeGroup{{Names: []string{ns[10]}, Entries: es}, {Names: []string{ns[11], ns[12]}}})
	p["props"] = prop
	jobs = append(jobs, run.Job{ID: "load/six-arguments-two-groups", Pkg: run.Module, Harness: "H_Load", Params: p, Weight: 50})
	if large {
		p := LargeParams("x86_64", 0, []LargeGroup{{Names: ns}})
		p["props"] = prop
		p["nnpconc"] = 1
		jobs = append(jobs, run.Job{ID: fmt.Sprintf("load/whole-table(%d names)", len(ns)), Pkg: run.Module, Harness: "H_Load", Params: p, Weight: 400})
		lj, err := largeCondJobs(c, prop, "x86_64", []condLayout{{64, 1}}, 0)
		if err != nil {
			return nil, err
		}
		for _, j := range lj[:1] {
			j.Harness = "H_Load"
			j.Params["nnpconc"] = 1
			j.ID = "load/" + j.ID
			jobs = append(jobs, j)
		}
	}
	// histories of two calls: an earlier SetNoNewPrivs / LoadFilter / Supported in the same process
	hshapes := []int{0}
	if c.Tier == "thorough" {
		hshapes = []int{0, 3 * stride, 7 * stride}
	}
	for _, hi := range hshapes {
		s := shapes[(hi+int(c.Seed))%len(shapes)]
		for prior := 1; prior <= 3; prior++ {
			p := s.Params("x86_64", 0, names, false)
			p["props"] = prop
			p["prior"] = prior
			jobs = append(jobs, run.Job{ID: fmt.Sprintf("load-after/%s/%d:%s", []string{"", "SetNoNewPrivs", "LoadFilter", "Supported"}[prior], hi, s.String()), Pkg: run.Module, Harness: "H_Load", Params: p, Weight: 20})
		}
	}
	jobs = append(jobs, run.Job{ID: "supported", Pkg: run.Module, Harness: "H_Supported", Params: map[string]interface{}{}})
	return jobs, nil
}

var loadStubs = []string{
	"syscall.Syscall / Syscall6 -> vstubSyscall*: returns arbitrary (r1, errno) under Go's Syscall contract (errno != 0 => r1 == ^0; errno == 0 => r1 not in [-4095,-1]); records trap, arguments, thread id, lock epoch; dereferences the sock_fprog pointer like the kernel",
	"kernel contract assumed from seccomp(2)/prctl(2): filter attached iff seccomp(SET_MODE_FILTER) returns 0 with errno 0; positive return only with TSYNC; caller without no_new_privs and without CAP_SYS_ADMIN gets EACCES; prctl(38,1,0,0,0) == 0 sets the calling thread's bit",
	"histories: one earlier call of SetNoNewPrivs, LoadFilter (own arguments and kernel answers) or Supported in the same process, on an arbitrary thread; kernel state carries over (which thread has no_new_privs; a successful thread-synchronising attach gives it to every thread; a thread other than the one that set it earlier may have inherited it or not)",
	"scheduling: the thread id of each syscall is arbitrary unless the goroutine has been locked to its thread (runtime.LockOSThread, redirected to a counter) since the previous syscall",
	"fmt.Errorf -> opaque non-nil error",
}

func init() {
	loadJobs := func(prop string) func(c *Ctx) ([]run.Job, error) {
		return func(c *Ctx) ([]run.Job, error) { return loadShapes(c, prop, prop == "C08" || c.Tier == "thorough") }
	}
	register(&Spec{
		ID: "C08", Dirs: []string{"root"}, Level: "translation_validation",
		Technique: "symbolic execution of the real LoadFilter with syscall.Syscall redirected to a kernel-contract stub: at the seccomp call the pointer argument is dereferenced (sock_fprog, then len elements) and SMT decides that length and every element equal the raw encoding of the compiled program and that the memory at the pointer, run by the kernel model, decides like the policy for all events",
		Rule:      "one instance = one policy shape through LoadFilter; event, operands, actions, flag word, NoNewPrivs and all kernel answers symbolic.",
		Jobs:      loadJobs("C08"),
		Extra: func(c *Ctx) ([]Finding, error) {
			// Not the deciding step: the running kernel is sampled. Policies over harmless probe
			// syscalls are installed (real LoadFilter, real seccomp) in child processes and probed with
			// chosen 64-bit register values; errno / success / SIGSYS must equal what the kernel model
			// and the reference decision say. A disagreement is a reproduced failure of C08's
			// host-kernel clause (or of the model) and is reported; an environment where no filter
			// can be installed skips this part.
			tab, err := c.ArchTable("X86_64")
			if err != nil {
				return nil, err
			}
			summary, _, all := kernelValidationLines(c, rand.New(rand.NewSource(c.Seed)), tab, c.Tier)
			c.Ev.Extra["running_kernel_sampled"] = summary
			var fails []string
			for _, l := range all {
				// only policy probes that disagreed in three consecutive child runs; the thread-sync sample
				// belongs to C10's assumptions
				if strings.Contains(l, "[3 of 3 runs]") {
					fails = append(fails, l)
				}
			}
			bad := len(fails)
			var fs []Finding
			if bad > 0 && len(fails) > 0 {
				fs = append(fs, Finding{Tag: "C08.kernel", What: "the running kernel disagrees with the policy for a really installed filter: " + fails[0], Replay: map[string]interface{}{"failures": fails}})
			} else if bad > 0 {
				return nil, fmt.Errorf("kernel sampling did not run: %s", summary)
			}
			return fs, nil
		},
		NeedCovers: []string{"cover.decided", "cover.attached"},
		Bounds:    map[string]interface{}{"running_kernel": "sampled, not decided: 60 (quick) / 400 (thorough) policies over getpid/getppid/get*id/gettid with conditions on all six registers, 12/24 probes each incl. x32 numbers and kill_process", "shapes": "12 (quick) / 60 (thorough) small shapes by stride, conditions on all six arguments in two groups, the whole x86_64 table, one 64-list conditional shape", "values": "all events, operands, actions, flags, kernel answers"},
		Outside:   []string{"the running kernel's evaluation of those bytes (represented by the KMI model), SIGSYS delivery and errno delivery to the probe syscall", "programs of >= 65536 instructions where uint16(len) would truncate (kernel limit is 4096)", "targets other than linux/amd64 for the syscall numbers (C19)"},
		Assumptions: loadStubs, Trusted: policyTrusted,
	})
	register(&Spec{
		ID: "C09", Dirs: []string{"root"}, Level: "model_checking",
		Technique: "symbolic execution of the real LoadFilter/Supported over all kernel answers (r1, errno symbolic per syscall): on every path SMT decides result == nil <=> filter attached (ghost fact from seccomp(2)), that a failed Assemble or prctl leaves the call trace empty / without a seccomp call, and that Supported issues exactly one call of the form that cannot change state",
		Rule:      "one instance = one policy shape (valid, or invalid so that the load fails before the kernel) through LoadFilter, or Supported(); kernel answers, flags, NoNewPrivs, privilege symbolic; one path per control-flow outcome.",
		Jobs:      loadJobs("C09"),
		NeedCovers: []string{"cover.tsync_refused", "cover.eacces", "cover.einval", "cover.attached", "cover.invalid", "cover.prctl_failed", "cover.supported", "cover.unsupported"},
		Bounds:    map[string]interface{}{"calls": "one LoadFilter (or Supported) call per path, and histories of TWO calls in three (thorough: nine) instances: an earlier SetNoNewPrivs / LoadFilter (own arguments and kernel answers) / Supported in the same process, then the call whose obligations are checked; what OTHER threads did before is represented by the kernel answer it provokes (positive r1 = refused thread-sync), not replayed; goroutines started by the code under test run to completion where they are started (one schedule)", "answers": "all (r1, errno) pairs allowed by the Syscall contract"},
		Outside:   []string{"whether the kernel honours seccomp(2)", "histories of several LoadFilter calls in one process"},
		Assumptions: loadStubs, Trusted: []string{"kernel contract stub (harness/root/zz_verif_h_load_linux.go, ~100 lines)", "gosym engine; models replayed natively against seccomp_linux.go with its syscall selectors rewritten to the stub", "z3/cvc5"},
	})
	register(&Spec{
		ID: "C10", Dirs: []string{"root"}, Level: "model_checking",
		Technique: "symbolic execution of the real LoadFilter with a symbolic 32-bit Flag: SMT decides that the second argument of the seccomp call equals the zero-extended flag word for all 2^32 values, that no other state-changing call is made, and (with C09) that nil is returned only when the kernel reported complete synchronisation (r1 == 0). The schedule quantifier itself (TSYNC atomicity over N threads) is kernel behaviour and is assumed from seccomp(2), not decided.",
		Rule:      "one instance = one policy shape through LoadFilter with symbolic Flag.",
		Jobs:      loadJobs("C10"),
		Owns:      func(tag string) bool { return tagProp(tag) == "C10" || tag == "C09.nil_attached" },
		Extra: func(c *Ctx) ([]Finding, error) {
			// The kernel-side assumption (a TSYNC load that returned nil covers every thread), SAMPLED on the
			// running kernel; not a deciding step and not a substitute for the schedule quantifier.
			tab, err := c.ArchTable("X86_64")
			if err != nil {
				return nil, err
			}
			summary, _, _ := kernelValidationLines(c, rand.New(rand.NewSource(c.Seed)), tab, "tsync-only")
			c.Ev.Extra["kernel_assumption_sampled"] = summary
			c.Ev.Extra["kernel_assumption_held_in_sample"] = tsyncClean(summary)
			// a thread found without the filter would be the KERNEL breaking seccomp(2), not the library
			// breaking C10: it is recorded, never reported as a violation
			return nil, nil
		},
		NeedCovers: []string{"cover.tsync_refused", "cover.attached"},
		Bounds:    map[string]interface{}{"flags": "all 2^32 values of Filter.Flag", "threads": "not explored: the library's contribution is the flag word and the handling of the kernel's answer"},
		Outside:   []string{"that the kernel applies a TSYNC filter atomically to running, blocked and nascent threads (kernel code; assumed from seccomp(2))", "interleavings with N other OS threads"},
		Assumptions: loadStubs, Trusted: []string{"kernel contract stub", "gosym engine; native replay", "z3/cvc5"},
	})
	register(&Spec{
		ID: "C11", Dirs: []string{"root"}, Level: "model_checking",
		Technique: "symbolic execution of the real LoadFilter over a scheduling model in which the OS thread of each syscall is an arbitrary symbolic value unless the goroutine is locked to its thread: SMT decides on the call trace that NoNewPrivs => exactly one prctl(38,1,0,0,0) strictly before seccomp and on the same thread, not requested => no prctl, and unprivileged without the bit => error",
		Rule:      "one instance = one policy shape through LoadFilter; NoNewPrivs, privilege, thread ids and kernel answers symbolic.",
		Jobs:      loadJobs("C11"),
		NeedCovers: []string{"cover.prctl_then_seccomp", "cover.prctl_failed", "cover.eacces"},
		Bounds:    map[string]interface{}{"schedules": "every assignment of thread ids to the two syscalls consistent with the lock state (migration at any point between them)", "privilege": "symbolic"},
		Outside:   []string{"preemption inside a syscall (kernel)", "the Go scheduler itself: goroutine schedules are represented by their only observable effect here, the thread each syscall runs on"},
		Assumptions: loadStubs, Trusted: []string{"kernel contract stub incl. the per-thread no_new_privs ghost bit", "gosym engine; native replay", "z3/cvc5"},
	})
}

// tsyncClean: every sampled run reports unfiltered=0 and late=true.
func tsyncClean(summary string) bool {
	i := strings.Index(summary, "thread-sync assumption sampled")
	if i < 0 {
		return true
	}
	rest := summary[i:]
	for _, part := range strings.Split(rest, ";") {
		if strings.Contains(part, "unfiltered=") && (!strings.Contains(part, "unfiltered=0 ") || !strings.Contains(part, "late=true")) {
			return false
		}
	}
	return true
}
