package checks

import (
	"fmt"
	"sort"
	"strconv"
	"strings"
)

// ---- PS-small: all policy structures up to a weight ----

type entShape struct {
	ops []string // one operation per condition
}

type groupShape struct {
	u    int // unconditional names
	ents []entShape
}

func (g groupShape) weight() int {
	w := 1 + g.u + len(g.ents)
	for _, e := range g.ents {
		w += len(e.ops)
	}
	return w
}

type PolicyShape struct {
	Groups []groupShape
	Names  []int // name id per entry (per group: unconditional names, then conditional entries)
}

func (s PolicyShape) Weight() int {
	w := 0
	for _, g := range s.Groups {
		w += g.weight()
	}
	return w
}

func (s PolicyShape) HasCond() bool {
	for _, g := range s.Groups {
		if len(g.ents) > 0 {
			return true
		}
	}
	return false
}

func (s PolicyShape) String() string {
	var sb strings.Builder
	k := 0
	for gi, g := range s.Groups {
		if gi > 0 {
			sb.WriteString(" | ")
		}
		sb.WriteString("[")
		for i := 0; i < g.u; i++ {
			fmt.Fprintf(&sb, "n%d ", s.Names[k])
			k++
		}
		for _, e := range g.ents {
			fmt.Fprintf(&sb, "n%d(%s) ", s.Names[k], strings.Join(e.ops, ","))
			k++
		}
		sb.WriteString("]")
	}
	return sb.String()
}

func groupStructs(ops []string, maxu, maxe, maxc int) []groupShape {
	var conds []entShape
	var rec func(cur []string, n int)
	rec = func(cur []string, n int) {
		if len(cur) == n {
			conds = append(conds, entShape{ops: append([]string(nil), cur...)})
			return
		}
		for _, o := range ops {
			rec(append(cur, o), n)
		}
	}
	for c := 1; c <= maxc; c++ {
		rec(nil, c)
	}
	var out []groupShape
	for u := 0; u <= maxu; u++ {
		for e := 0; e <= maxe; e++ {
			var recE func(cur []entShape)
			recE = func(cur []entShape) {
				if len(cur) == e {
					out = append(out, groupShape{u: u, ents: append([]entShape(nil), cur...)})
					return
				}
				for _, c := range conds {
					recE(append(cur, c))
				}
			}
			recE(nil)
		}
	}
	return out
}

func partitions(n, maxNames int, f func(p []int)) {
	cur := make([]int, 0, n)
	var rec func(i, mx int)
	rec = func(i, mx int) {
		if i == n {
			f(cur)
			return
		}
		for v := 0; v <= mx+1 && v < maxNames; v++ {
			cur = append(cur, v)
			m := mx
			if v > m {
				m = v
			}
			rec(i+1, m)
			cur = cur[:len(cur)-1]
		}
	}
	rec(0, -1)
}

// validNaming: what the compiler accepts (no duplicate unconditional names in
// a group, no name both with and without conditions in a group).
func validNaming(groups []groupShape, part []int) bool {
	idx := 0
	for _, g := range groups {
		un := part[idx : idx+g.u]
		cn := part[idx+g.u : idx+g.u+len(g.ents)]
		idx += g.u + len(g.ents)
		seen := map[int]bool{}
		for _, x := range un {
			if seen[x] {
				return false
			}
			seen[x] = true
		}
		for _, x := range cn {
			if seen[x] {
				return false
			}
		}
	}
	return true
}

// ShapeLimits bounds the enumeration of policy structures.
type ShapeLimits struct {
	Groups, Names, Entries, Conds, DistinctNames int
}

var defaultLimits = ShapeLimits{Groups: 3, Names: 2, Entries: 2, Conds: 2, DistinctNames: 4}

// EnumPolicyShapes lists every valid shape with weight <= W.
func EnumPolicyShapes(W int, ops []string, valid bool) []PolicyShape {
	return EnumPolicyShapesLim(W, ops, valid, defaultLimits)
}

func EnumPolicyShapesLim(W int, ops []string, valid bool, lim ShapeLimits) []PolicyShape {
	gs := groupStructs(ops, lim.Names, lim.Entries, lim.Conds)
	var out []PolicyShape
	var rec func(cur []groupShape, w int)
	rec = func(cur []groupShape, w int) {
		if len(cur) > 0 {
			n := 0
			for _, g := range cur {
				n += g.u + len(g.ents)
			}
			groups := append([]groupShape(nil), cur...)
			partitions(n, lim.DistinctNames, func(p []int) {
				if validNaming(groups, p) == valid {
					out = append(out, PolicyShape{Groups: groups, Names: append([]int(nil), p...)})
				}
			})
		}
		if len(cur) == lim.Groups {
			return
		}
		for _, g := range gs {
			if w+g.weight() <= W {
				rec(append(cur, g), w+g.weight())
			}
		}
	}
	rec(nil, 0)
	return out
}

// Params renders a shape as harness parameters. names maps name ids to
// concrete syscall names of the architecture.
func (s PolicyShape) Params(arch string, bo int, names []string, symArg bool) map[string]interface{} {
	p := map[string]interface{}{"arch": arch, "bo": bo, "symact": 1, "ngroups": len(s.Groups), "split": 1}
	k := 0
	hascond := 0
	argc := 0
	for gi, g := range s.Groups {
		gp := "g" + strconv.Itoa(gi)
		p[gp+".nnames"] = g.u
		for i := 0; i < g.u; i++ {
			p[gp+".n"+strconv.Itoa(i)] = names[s.Names[k]]
			k++
		}
		p[gp+".nent"] = len(g.ents)
		for ei, e := range g.ents {
			hascond = 1
			ep := gp + ".e" + strconv.Itoa(ei)
			p[ep+".name"] = names[s.Names[k]]
			k++
			p[ep+".nc"] = len(e.ops)
			for ci, op := range e.ops {
				cp := ep + ".c" + strconv.Itoa(ci)
				p[cp+".op"] = op
				if symArg {
					p[cp+".arg"] = -1
				} else {
					p[cp+".arg"] = argc % 6
					argc++
				}
			}
		}
	}
	p["hascond"] = hascond
	return p
}

// ---- helpers for large shapes ----

type LargeGroup struct {
	Names   []string
	Entries []LargeEntry
}
type LargeEntry struct {
	Name  string
	Conds []string // operations
}

// LargeParams renders an explicit policy description.
func LargeParams(arch string, bo int, groups []LargeGroup) map[string]interface{} {
	p := map[string]interface{}{"arch": arch, "bo": bo, "symact": 1, "ngroups": len(groups), "split": 1}
	hascond := 0
	argc := 0
	for gi, g := range groups {
		gp := "g" + strconv.Itoa(gi)
		p[gp+".nnames"] = len(g.Names)
		for i, n := range g.Names {
			p[gp+".n"+strconv.Itoa(i)] = n
		}
		p[gp+".nent"] = len(g.Entries)
		for ei, e := range g.Entries {
			hascond = 1
			ep := gp + ".e" + strconv.Itoa(ei)
			p[ep+".name"] = e.Name
			p[ep+".nc"] = len(e.Conds)
			for ci, op := range e.Conds {
				cp := ep + ".c" + strconv.Itoa(ci)
				p[cp+".op"] = op
				p[cp+".arg"] = argc % 6
				argc++
			}
		}
	}
	p["hascond"] = hascond
	return p
}

func sortedNamesByNumber(tab map[string]int) []string {
	var ns []string
	for n := range tab {
		ns = append(ns, n)
	}
	sort.Slice(ns, func(i, j int) bool {
		if tab[ns[i]] != tab[ns[j]] {
			return tab[ns[i]] < tab[ns[j]]
		}
		return ns[i] < ns[j]
	})
	return ns
}
