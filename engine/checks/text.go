package checks

import (
	"fmt"
	"go/types"
	"os"
	"os/exec"
	"path/filepath"
	"reflect"
	"strings"

	"verif/engine/run"
)

// configStructs are the types that make up a policy in its text forms.
var configStructs = []string{"Policy", "SyscallGroup", "NameWithConditions", "Condition"}

func tagName(tag reflect.StructTag, key string) (string, bool) {
	v, ok := tag.Lookup(key)
	if !ok {
		return "", false
	}
	if i := strings.Index(v, ","); i >= 0 {
		v = v[:i]
	}
	return v, true
}

// tagFindings: for every exported field the key written by yaml/json
// marshalling must be the key the config loader reads.
func tagFindings(c *Ctx) ([]Finding, int, []interface{}) {
	var out []Finding
	var samples []interface{}
	n := 0
	pkg := c.S.L.ByPath[run.Module]
	for _, sn := range configStructs {
		obj := pkg.Pkg.Scope().Lookup(sn)
		if obj == nil {
			out = append(out, Finding{Tag: "C14.tags", What: "type " + sn + " not found"})
			continue
		}
		st, ok := obj.Type().Underlying().(*types.Struct)
		if !ok {
			continue
		}
		for i := 0; i < st.NumFields(); i++ {
			f := st.Field(i)
			if !f.Exported() {
				continue
			}
			tag := reflect.StructTag(st.Tag(i))
			cfg, okc := tagName(tag, "config")
			y, oky := tagName(tag, "yaml")
			j, okj := tagName(tag, "json")
			n++
			samples = append(samples, map[string]string{"field": sn + "." + f.Name(), "config": cfg, "yaml": y, "json": j})
			if !okc || !oky || !okj || cfg != y || cfg != j {
				out = append(out, Finding{Tag: "C14.tags", What: fmt.Sprintf("%s.%s: config key %q, yaml key %q, json key %q - a policy marshalled with this field set is read back with the field at its default", sn, f.Name(), cfg, y, j),
					Replay: map[string]interface{}{"field": sn + "." + f.Name(), "config": cfg, "yaml": y, "json": j}})
			}
		}
	}
	if len(samples) > 4 {
		samples = samples[:4]
	}
	return out, n, samples
}

// nativeRoundTrip confirms tag findings end to end: marshal with yaml.v2 /
// encoding/json, read back with go-ucfg, compare. Sampled values; this is the
// replay of a C14.tags finding, not the deciding step.
func nativeRoundTrip(c *Ctx) (fails []string, err error) {
	tmp, err := os.MkdirTemp("", "verif-c14-")
	if err != nil {
		return nil, err
	}
	defer os.RemoveAll(tmp)
	src := filepath.Join(tmp, "zz_verif_roundtrip_test.go")
	if err := os.WriteFile(src, []byte(roundTripTest), 0o644); err != nil {
		return nil, err
	}
	ov := fmt.Sprintf(`{"Replace":{%q:%q}}`, filepath.Join(c.RepoDir, "zz_verif_roundtrip_test.go"), src)
	ovp := filepath.Join(tmp, "ov.json")
	os.WriteFile(ovp, []byte(ov), 0o644)
	cmd := exec.Command("go", "test", "-vet=off", "-count=1", "-overlay", ovp, "-run", "^TestVerifConfigRoundTrip$", "-v", ".")
	cmd.Dir = c.RepoDir
	cmd.Env = append(os.Environ(), "GOFLAGS=-mod=mod", "GOPROXY=off", "GOSUMDB=off", "GOTOOLCHAIN=local")
	outb, _ := cmd.CombinedOutput()
	done := false
	for _, l := range strings.Split(string(outb), "\n") {
		l = strings.TrimSpace(l)
		if strings.HasPrefix(l, "VERIF-FAIL ") {
			fails = append(fails, strings.TrimPrefix(l, "VERIF-FAIL "))
		}
		if l == "VERIF-DONE" {
			done = true
		}
	}
	if !done {
		return nil, fmt.Errorf("native round trip did not run: %s", lastN(string(outb), 5))
	}
	return fails, nil
}

func lastN(s string, n int) string {
	ls := strings.Split(strings.TrimSpace(s), "\n")
	if len(ls) > n {
		ls = ls[len(ls)-n:]
	}
	return strings.Join(ls, " | ")
}

const roundTripTest = `package seccomp_test

import (
	"encoding/json"
	"fmt"
	"reflect"
	"testing"

	ucfgjson "github.com/elastic/go-ucfg/json"
	ucfgyaml "github.com/elastic/go-ucfg/yaml"
	yaml "gopkg.in/yaml.v2"

	seccomp "github.com/elastic/go-seccomp-bpf"
)

func TestVerifConfigRoundTrip(t *testing.T) {
	type C struct {
		Seccomp seccomp.Policy ` + "`yaml:\"seccomp\" json:\"seccomp\"`" + `
	}
	actions := []seccomp.Action{seccomp.ActionKillThread, seccomp.ActionKillProcess, seccomp.ActionTrap, seccomp.ActionErrno, seccomp.ActionTrace, seccomp.ActionLog, seccomp.ActionAllow}
	vals := []uint64{0, 1, 0x10000000, 1 << 31, 1 << 32, 1<<53 - 1}
	n := 0
	for ai, a := range actions {
		for oi, op := range seccomp.Operations {
			arg := uint32((ai + oi) % 6)
			p := seccomp.Policy{DefaultAction: a, Syscalls: []seccomp.SyscallGroup{{
				Action: actions[(ai+1)%len(actions)], Names: []string{"connect", "read"},
				NamesWithCondtions: []seccomp.NameWithConditions{{Name: "clone", Conditions: []seccomp.Condition{{Argument: arg, Operation: op, Value: vals[(ai+oi)%len(vals)]}, {Argument: 5 - arg, Operation: op, Value: 7}}}},
			}}}
			y, err := yaml.Marshal(C{p})
			if err != nil {
				fmt.Println("VERIF-FAIL yaml-marshal", err)
				continue
			}
			cfg, err := ucfgyaml.NewConfig(y)
			var back C
			if err == nil {
				err = cfg.Unpack(&back)
			}
			if err != nil || !reflect.DeepEqual(back.Seccomp.Syscalls, p.Syscalls) || back.Seccomp.DefaultAction != p.DefaultAction {
				fmt.Printf("VERIF-FAIL yaml round trip action=%v op=%v arg=%d: err=%v got=%+v\n", a, op, arg, err, back.Seccomp)
			}
			j, err := json.Marshal(C{p})
			if err != nil {
				fmt.Println("VERIF-FAIL json-marshal", err)
				continue
			}
			cfg, err = ucfgjson.NewConfig(j)
			var back2 C
			if err == nil {
				err = cfg.Unpack(&back2)
			}
			if err != nil || !reflect.DeepEqual(back2.Seccomp.Syscalls, p.Syscalls) || back2.Seccomp.DefaultAction != p.DefaultAction {
				fmt.Printf("VERIF-FAIL json round trip action=%v op=%v arg=%d: err=%v got=%+v\n", a, op, arg, err, back2.Seccomp)
			}
			n++
		}
	}
	fmt.Println("VERIF-DONE")
}
`

// nearMissStrings: concrete inputs that must be rejected (or, for the case variants, accepted) by both parsers.
func nearMissStrings() []string {
	names := []string{"kill_thread", "kill_process", "trap", "errno", "trace", "log", "allow", "Equal", "NotEqual", "GreaterThan", "LessThan", "GreaterOrEqual", "LessOrEqual", "BitsSet", "BitsNotSet"}
	out := []string{"", " ", "0", "1", "2", "5", "7", "-1", "017", "0x0", "0x7fff0000", "2147418112", "0x80000000", "2147483648", "0x50000", "327680", "0x50001", "4294967295",
		"kill", "kill_", "killthread", "kill-thread", "kill thread", "allowed", "allow_all", "deny", "permit", "errno(1)", "errno:1", "errno=EPERM", "trace(0)", "notify", "user_notif", "kill_process_group",
		"eq", "ne", "gt", "lt", "ge", "le", "==", "!=", ">", "<", ">=", "<=", "&", "GreaterThanOrEqual", "LessThanOrEqual", "EqualTo", "NotEqualTo", "Bits", "BitsSetAll", "MaskedEqual", "bits_set", "not_equal",
		"\u017fkill_thread", "\u212aill_thread", "a\u0307llow", "ALLOW\u0130", "tra\u0440", "\u0430llow", "allow\x00", "\x00allow", "allow\x00kill_thread", strings.Repeat("allow", 2000)}
	// one letter replaced by a character that folds or looks like it (U+017F long s, U+212A Kelvin sign,
	// U+0130 / U+0131 dotted / dotless i, Cyrillic a e o)
	subst := map[rune][]rune{'s': {0x17f}, 'S': {0x17f}, 'k': {0x212a}, 'K': {0x212a}, 'i': {0x130, 0x131}, 'I': {0x130, 0x131}, 'a': {0x430}, 'e': {0x435}, 'o': {0x43e}, 'l': {'1', 'I'}, 'O': {'0'}}
	for _, n := range names {
		rs := []rune(n)
		for i, r := range rs {
			for _, alt := range subst[r] {
				v := append(append([]rune{}, rs[:i]...), alt)
				v = append(v, rs[i+1:]...)
				out = append(out, string(v), strings.ToUpper(string(v)))
			}
		}
	}
	for _, n := range names {
		out = append(out, strings.ToUpper(n), strings.ToLower(n), strings.Title(strings.ToLower(n)), " "+n, n+" ", "\t"+n, n+"\n", n+"\r\n", n+",", n+";", "'"+n+"'", "\""+n+"\"", n+"s", "_"+n, n+"_", n[:len(n)-1], n[1:], n+n, n+"|"+n)
	}
	return out
}

func init() {
	register(&Spec{
		ID: "C14", Dirs: []string{"root"}, Level: "model_checking",
		Technique: "symbolic execution of the real Action.Unpack / Operation.Unpack / String / MarshalText on an arbitrary string (equality atom, case through an uninterpreted lower()) under both iteration orders of the name map: SMT decides 'Unpack succeeds with value a iff lower(s) is the documented name of a' for all strings, the round trip for all seven actions and eight operations, and that unknown values print no documented name. Text-form agreement is decided on the struct tags of the current source (go/types): config key == yaml key == json key for every field; a disagreement is confirmed natively by a marshal / config-load round trip.",
		Rule:      "one instance = one parser/printer harness under one map order, plus one tag obligation per exported field of Policy, SyscallGroup, NameWithConditions, Condition.",
		Jobs: func(c *Ctx) ([]run.Job, error) {
			var jobs []run.Job
			for _, o := range []string{"asc", "desc"} {
				jobs = append(jobs, run.Job{ID: "unpack-action/" + o, Pkg: run.Module, Harness: "H_UnpackAction", Params: map[string]interface{}{"order": o}, CoverModels: true})
			}
			jobs = append(jobs, run.Job{ID: "unpack-operation", Pkg: run.Module, Harness: "H_UnpackOperation", Params: map[string]interface{}{}, CoverModels: true})
			jobs = append(jobs, run.Job{ID: "roundtrip", Pkg: run.Module, Harness: "H_RoundTrip", Params: map[string]interface{}{}})
			// the same obligations on byte-vector strings (every length up to two more than the longest name)
			for n := 0; n <= 14; n++ {
				for _, o := range []string{"asc", "desc"} {
					if o == "desc" && c.Tier != "thorough" && n%4 != 0 {
						continue
					}
					jobs = append(jobs, run.Job{ID: fmt.Sprintf("unpack-action-bytes/len%d/%s", n, o), Pkg: run.Module, Harness: "H_UnpackActionBytes", Params: map[string]interface{}{"order": o, "len": n}})
				}
			}
			for n := 0; n <= 16; n++ {
				jobs = append(jobs, run.Job{ID: fmt.Sprintf("unpack-operation-bytes/len%d", n), Pkg: run.Module, Harness: "H_UnpackOperationBytes", Params: map[string]interface{}{"len": n}})
			}
			// concrete near misses (numbers, white space, punctuation, look-alikes, long input)
			for i, s := range nearMissStrings() {
				jobs = append(jobs, run.Job{ID: fmt.Sprintf("unpack-concrete/%d:%q", i, s), Pkg: run.Module, Harness: "H_UnpackConcrete", Params: map[string]interface{}{"s": s}})
			}
			return jobs, nil
		},
		Extra: func(c *Ctx) ([]Finding, error) {
			fs, n, samples := tagFindings(c)
			c.Ev.Extra["driver_obligations"] = n
			c.Ev.Extra["driver_nontrivial"] = n
			c.Ev.Extra["driver_cases"] = n
			c.Ev.Extra["driver_samples"] = samples
			fails, err := nativeRoundTrip(c)
			if err != nil {
				return fs, err
			}
			c.Ev.Extra["native_config_round_trip"] = map[string]interface{}{"policies": 56, "failures": len(fails), "note": "sampled confirmation (operands < 2^53); not the deciding step"}
			if len(fails) > 0 && len(fs) == 0 {
				// the libraries disagree with the tag reading: report, with the first failure
				fs = append(fs, Finding{Tag: "C14.roundtrip_native", What: "marshal/config-load round trip changes the policy although all tags agree: " + fails[0]})
			}
			if len(fs) > 0 && len(fails) == 0 {
				return nil, fmt.Errorf("tag disagreement (%s) did not show in the native round trip", fs[0].What)
			}
			return fs, nil
		},
		NeedCovers: []string{"cover.unpack.ok", "cover.unpack.rejected", "cover.unpack.case_variant", "cover.unpack_op.ok", "cover.unpack_op.rejected", "cover.roundtrip", "cover.unpack_bytes.ok", "cover.unpack_bytes.rejected", "cover.unpack_op_bytes.ok", "cover.unpack_op_bytes.rejected", "cover.unpack_concrete"},
		Bounds:     map[string]interface{}{"strings": "all strings (equality atoms; case variants through lower()); additionally every string of up to 14 (actions) / 16 (operations) 7-bit ASCII characters as a byte vector, for code that looks at length, prefixes or single characters; plus ~600 concrete near-miss inputs (numbers in several bases, white space, punctuation, non-ASCII look-alikes, 10 000 characters) executed concretely", "values": "all 2^32 action words for printing; the seven actions and eight operations for round trips", "tags": "every exported field of the four policy structs"},
		Outside:    []string{"the behaviour of go-ucfg, yaml.v2 and encoding/json themselves (reflection-driven): quoting, defaults, and numeric fidelity of 64-bit operands through the text form - a design-time probe showed the JSON path (go-ucfg/json reads numbers as float64) rounding operands above 2^53; that is library behaviour this technique cannot encode and is not part of the claim", "the YAML/JSON syntax produced"},
		Assumptions: []string{"yaml.v2 / encoding/json write a field under its yaml / json tag name and go-ucfg reads it under its config tag name, defaulting a missing key silently (library contract)", "documented names: the seven action names of the README / example policy and the eight operation names"},
		Trusted:    []string{"equality-atom string encoding with uninterpreted lower(); byte-vector strings with strings.ToLower/ToUpper/EqualFold/HasPrefix/HasSuffix as per-byte ASCII case mapping", "gosym engine; models replayed natively", "z3/cvc5", "go/types reading of the struct tags"},
	})
}
