package checks

import (
	"encoding/json"
	"fmt"
	"go/constant"
	"go/types"
	"os"
	"os/exec"
	"path/filepath"
	"sort"
	"strings"
	"sync"

	"verif/engine/run"
)

var quickTargets = []string{"linux/amd64", "linux/386", "linux/arm", "linux/arm64", "linux/ppc64le", "linux/s390x", "linux/mips", "linux/riscv64", "android/arm64", "darwin/arm64", "windows/amd64", "freebsd/386", "js/wasm", "plan9/386"}

func allTargets() ([]string, error) {
	out, err := exec.Command("go", "tool", "dist", "list").Output()
	if err != nil {
		return nil, err
	}
	return strings.Fields(string(out)), nil
}

// repo constant -> UAPI name
var constOracle = map[string]string{
	"ActionKillThread": "SECCOMP_RET_KILL_THREAD", "ActionKillProcess": "SECCOMP_RET_KILL_PROCESS", "ActionTrap": "SECCOMP_RET_TRAP",
	"ActionErrno": "SECCOMP_RET_ERRNO", "ActionTrace": "SECCOMP_RET_TRACE", "ActionLog": "SECCOMP_RET_LOG", "ActionAllow": "SECCOMP_RET_ALLOW",
	"ActionUserNotify": "SECCOMP_RET_USER_NOTIF", "FilterFlagTSync": "SECCOMP_FILTER_FLAG_TSYNC", "FilterFlagLog": "SECCOMP_FILTER_FLAG_LOG",
	"errnoEPERM": "EPERM", "errnoENOSYS": "ENOSYS", "prSetNoNewPrivs": "PR_SET_NO_NEW_PRIVS",
	"seccompSetModeStrict": "SECCOMP_SET_MODE_STRICT", "seccompSetModeFilter": "SECCOMP_SET_MODE_FILTER",
}

func loadUAPI(verifDir string) (map[string]uint64, error) {
	var f struct {
		Constants map[string]uint64 `json:"constants"`
	}
	b, err := os.ReadFile(filepath.Join(verifDir, "oracle/uapi_constants.json"))
	if err != nil {
		return nil, err
	}
	if err := json.Unmarshal(b, &f); err != nil {
		return nil, err
	}
	return f.Constants, nil
}

// uapiFor: the kernel's value for a constant on a Linux architecture. Only
// errno numbers differ: MIPS uses its own errno.h (ENOSYS = 89).
func uapiFor(uapi map[string]uint64, name, goos, goarch string) (uint64, bool) {
	v, ok := uapi[name]
	if name == "ENOSYS" && (goos == "linux" || goos == "android") && strings.HasPrefix(goarch, "mips") {
		return 89, true
	}
	return v, ok
}

type targetResult struct {
	target   string
	loadErr  string
	findings []Finding
	consts   int
	jobs     int
	paths    int
	oblig    int
	nontriv  int
	sigs     map[string]string // job id -> observation signature
	inconcl  []string
	solver   *run.SolverStats
}

func hasTable(goarch string) bool {
	switch goarch {
	case "amd64", "386", "arm", "arm64":
		return true
	}
	return false
}

func targetJobs(names map[string][]string) []run.Job {
	var jobs []run.Job
	// same-program signatures: three shapes x four tables x both byte orders, concrete values
	for _, a := range archOrder {
		ns := names[a]
		shapes := []map[string]interface{}{
			LargeParams(a, 0, []LargeGroup{{Names: ns[:5]}, {Names: ns[5:7]}}),
			LargeParams(a, 0, []LargeGroup{{Names: []string{ns[0]}, Entries: []LargeEntry{{Name: ns[1], Conds: []string{"Equal", "GreaterThan"}}, {Name: ns[1], Conds: []string{"BitsSet"}}, {Name: ns[2], Conds: []string{"LessOrEqual", "NotEqual", "BitsNotSet"}}}}, {Names: []string{ns[3]}}}),
			LargeParams(a, 0, []LargeGroup{{Names: ns[:260]}}),
		}
		for si, p := range shapes {
			for bo := 0; bo < 2; bo++ {
				q := map[string]interface{}{}
				for k, v := range p {
					q[k] = v
				}
				q["bo"] = bo
				jobs = append(jobs, run.Job{ID: fmt.Sprintf("sig/%s/shape%d/bo%d", a, si, bo), Pkg: run.Module, Harness: "H_Sig", Params: q})
			}
		}
	}
	// symbolic equivalence on a few shapes (the C01/C02/C03 obligations on this target's SSA)
	ns := names["x86_64"]
	small := []string{ns[0], ns[1], ns[len(ns)-1], ns[2]}
	for i, s := range EnumPolicyShapes(5, []string{"Equal", "GreaterThan"}, true) {
		if i%9 != 0 {
			continue
		}
		p := s.Params("x86_64", i%2, small, true)
		p["props"] = "C01 C03 C04 C05"
		jobs = append(jobs, run.Job{ID: fmt.Sprintf("equiv/%d:%s", i, s.String()), Pkg: run.Module, Harness: "H_Policy", Params: p})
	}
	for _, op := range []string{"GreaterThan", "BitsNotSet", "LessOrEqual"} {
		for bo := 0; bo < 2; bo++ {
			jobs = append(jobs, run.Job{ID: fmt.Sprintf("cond/%s/bo%d", op, bo), Pkg: run.Module, Harness: "H_Cond", Params: map[string]interface{}{"op": op, "place": bo, "bo": bo, "arch": "arm", "name": names["arm"][3]}})
		}
	}
	jobs = append(jobs, run.Job{ID: "notable", Pkg: run.Module, Harness: "H_NoTable", Params: map[string]interface{}{}})
	jobs = append(jobs, run.Job{ID: "stubs", Pkg: run.Module, Harness: "H_Stubs", Params: map[string]interface{}{}})
	return jobs
}

func runTarget(c *Ctx, target string, uapi map[string]uint64, names map[string][]string, workers int) *targetResult {
	tr := &targetResult{target: target, sigs: map[string]string{}}
	parts := strings.SplitN(target, "/", 2)
	goos, goarch := parts[0], parts[1]
	cfg := run.Config{RepoDir: c.RepoDir, VerifDir: c.VerifDir, Workers: workers, GOOS: goos, GOARCH: goarch, Tier: c.Tier, Seed: c.Seed}
	s, err := run.NewSession(cfg, []string{"root"}, ".")
	if err != nil {
		tr.loadErr = err.Error()
		return tr
	}
	// (a) constants as go/types evaluates them under this build context
	pkg := s.L.ByPath[run.Module]
	for repoName, uname := range constOracle {
		obj, ok := pkg.Pkg.Scope().Lookup(repoName).(*types.Const)
		if !ok {
			tr.findings = append(tr.findings, Finding{Tag: "C19.const", What: fmt.Sprintf("%s: constant %s not found", target, repoName)})
			continue
		}
		want, ok := uapiFor(uapi, uname, goos, goarch)
		if !ok {
			tr.inconcl = append(tr.inconcl, "oracle lacks "+uname)
			continue
		}
		got, exact := constant.Uint64Val(constant.ToInt(obj.Val()))
		tr.consts++
		if !exact || got != want {
			tr.findings = append(tr.findings, Finding{Tag: "C19.const", What: fmt.Sprintf("%s: %s = %#x but the kernel's %s is %#x", target, repoName, got, uname, want),
				Replay: map[string]interface{}{"target": target, "constant": repoName, "got": got, "want": want}})
		}
	}
	jobs := targetJobs(names)
	if !hasTable(goarch) {
		// No policy can be compiled through the public API on this target (H_NoTable decides
		// that); compiling a foreign table here is possible only through the harness' access
		// to the unexported architecture field, so the program obligations do not apply.
		var keep []run.Job
		for _, j := range jobs {
			if j.Harness == "H_NoTable" || j.Harness == "H_Stubs" {
				keep = append(keep, j)
			}
		}
		jobs = keep
	}
	for i := range jobs {
		jobs[i].Property = "C19"
	}
	res, stats, err := s.RunJobs(jobs, nil)
	if err != nil {
		tr.inconcl = append(tr.inconcl, target+": engine: "+err.Error())
		return tr
	}
	tr.solver = stats
	tr.jobs = len(jobs)
	for _, r := range res {
		if r == nil {
			continue
		}
		if r.Err != "" {
			tr.inconcl = append(tr.inconcl, fmt.Sprintf("%s %s: %s", target, r.Job.ID, r.Err))
		}
		for _, m := range r.Inconclusive {
			tr.inconcl = append(tr.inconcl, fmt.Sprintf("%s %s: %s", target, r.Job.ID, m))
		}
		tr.paths += r.Paths
		nt := false
		for tag, n := range r.Asserts {
			tr.oblig += n
			if n > r.Trivial[tag] {
				nt = true
			}
		}
		if nt {
			tr.nontriv++
		}
		for _, v := range r.Violations {
			tr.findings = append(tr.findings, Finding{Tag: "C19." + strings.ReplaceAll(v.Tag, ".", "_"), What: fmt.Sprintf("%s: %s violated in %s (values %v, observed %v)", target, v.Tag, r.Job.ID, v.Values, v.Obs),
				Replay: map[string]interface{}{"target": target, "job": r.Job, "violation": v}})
		}
		if strings.HasPrefix(r.Job.ID, "sig/") {
			// signature = all observations of the single path
			if len(r.Obs) > 0 {
				var ks []string
				for k := range r.Obs[0] {
					ks = append(ks, k)
				}
				sort.Strings(ks)
				var sb strings.Builder
				for _, k := range ks {
					sb.WriteString(k + "=" + r.Obs[0][k] + ";")
				}
				tr.sigs[r.Job.ID] = sb.String()
			} else {
				tr.inconcl = append(tr.inconcl, fmt.Sprintf("%s %s: no signature observed", target, r.Job.ID))
			}
		}
		if r.Job.Harness == "H_NoTable" && r.Covers["cover.notable.rejected"]+r.Covers["cover.notable.accepted"] == 0 && len(r.Violations) == 0 {
			tr.inconcl = append(tr.inconcl, target+": H_NoTable reached no verdict")
		}
		if r.Job.Harness == "H_Stubs" && r.Covers["cover.stubs.linux"]+r.Covers["cover.stubs.other"] == 0 && len(r.Violations) == 0 {
			tr.inconcl = append(tr.inconcl, target+": H_Stubs reached no verdict")
		}
	}
	return tr
}

func init() {
	register(&Spec{
		ID: "C19", Dirs: nil, Level: "model_checking",
		Technique: "the module is loaded, type-checked and SSA-built under every GOOS/GOARCH of the toolchain's distribution list; per target (a) the exported constants as evaluated by go/types are compared with the UAPI oracle, (b) the real compiler is executed from that target's SSA: concrete program signatures must be identical to linux/amd64's for the same table and byte order, and the symbolic equivalence obligations of C01-C05/C02 are decided by SMT on a sample of shapes, (c) on stub targets Supported/LoadFilter/SetNoNewPrivs are executed symbolically with every call that leaves the library recorded (must be none), (d) a policy without explicit architecture must be rejected with an error on targets whose GOARCH has no table",
		Rule:      "one instance = (build target, harness instance); per target 15 constants, 24 program signatures, about 20 symbolic shapes, the stub harness and the no-table harness.",
		Extra: func(c *Ctx) ([]Finding, error) {
			uapi, err := loadUAPI(c.VerifDir)
			if err != nil {
				return nil, err
			}
			targets := quickTargets
			if c.Tier == "thorough" {
				targets, err = allTargets()
				if err != nil {
					return nil, err
				}
			}
			// table names from the host build (data only)
			cfg := run.Config{RepoDir: c.RepoDir, VerifDir: c.VerifDir, Workers: 1}
			hs, err := run.NewSession(cfg, []string{"root"}, ".")
			if err != nil {
				return nil, fmt.Errorf("cannot load /repo with the harness overlay: %v", err)
			}
			c.S = hs
			names := map[string][]string{}
			for _, a := range archOrder {
				t, err := c.ArchTable(archVars[a])
				if err != nil {
					return nil, err
				}
				names[a] = sortedNamesByNumber(t)
			}
			results := make([]*targetResult, len(targets))
			var wg sync.WaitGroup
			sem := make(chan struct{}, 5)
			for i, t := range targets {
				wg.Add(1)
				go func(i int, t string) {
					defer wg.Done()
					sem <- struct{}{}
					defer func() { <-sem }()
					results[i] = runTarget(c, t, uapi, names, 3)
				}(i, t)
			}
			wg.Wait()
			var findings []Finding
			var ref *targetResult
			for _, r := range results {
				if r.target == "linux/amd64" {
					ref = r
				}
			}
			if ref == nil || ref.loadErr != "" {
				return nil, fmt.Errorf("reference target linux/amd64 did not load: %v", ref)
			}
			var skipped, inconcl []string
			perTarget := map[string]interface{}{}
			jobs, paths, oblig, nontriv, consts, sigsCompared := 0, 0, 0, 0, 0, 0
			for _, r := range results {
				if r.loadErr != "" {
					skipped = append(skipped, r.target+": "+firstLine(r.loadErr))
					continue
				}
				findings = append(findings, r.findings...)
				inconcl = append(inconcl, r.inconcl...)
				jobs += r.jobs
				paths += r.paths
				oblig += r.oblig + r.consts
				nontriv += r.nontriv
				consts += r.consts
				for id, sig := range ref.sigs {
					if len(r.sigs) == 0 {
						break
					}
					sigsCompared++
					if r.sigs[id] != sig {
						findings = append(findings, Finding{Tag: "C19.same_program", What: fmt.Sprintf("%s compiles %s to a different program than linux/amd64", r.target, id),
							Replay: map[string]interface{}{"target": r.target, "instance": id, "got": r.sigs[id], "want": sig}})
					}
				}
				perTarget[r.target] = map[string]int{"constants": r.consts, "instances": r.jobs, "paths": r.paths, "obligations": r.oblig}
			}
			sq := map[string]map[string]interface{}{}
			decided, crossed := 0, 0
			for _, r := range results {
				if r.solver == nil {
					continue
				}
				decided += r.solver.Decided
				crossed += r.solver.CrossChecked
				for n, p := range r.solver.By {
					m := sq[n]
					if m == nil {
						m = map[string]interface{}{"queries": 0, "sat": 0, "unsat": 0, "unknown": 0, "solver_s": 0.0}
						sq[n] = m
					}
					m["queries"] = m["queries"].(int) + p.Queries
					m["sat"] = m["sat"].(int) + p.Sat
					m["unsat"] = m["unsat"].(int) + p.Unsat
					m["unknown"] = m["unknown"].(int) + p.Unknown
					m["solver_s"] = round2(m["solver_s"].(float64) + p.WallS)
				}
			}
			c.Ev.Extra["solvers"] = sq
			c.Ev.Extra["verdict_queries"] = map[string]int{"decided": decided, "cross_checked_by_second_solver": crossed}
			c.Ev.Extra["targets"] = perTarget
			c.Ev.Extra["targets_skipped_not_building_offline"] = skipped
			c.Ev.Extra["signatures_compared"] = sigsCompared
			c.Ev.Extra["driver_obligations"] = oblig + sigsCompared
			c.Ev.Extra["driver_nontrivial"] = nontriv + len(perTarget)
			c.Ev.Extra["driver_cases"] = paths + consts + sigsCompared
			c.Ev.Extra["driver_instances"] = jobs
			c.Ev.Extra["driver_paths"] = paths
			c.Ev.Extra["driver_samples"] = []interface{}{map[string]interface{}{"target": "linux/amd64", "signature_of": "sig/x86_64/shape1/bo0", "observations": truncate(ref.sigs["sig/x86_64/shape1/bo0"], 400)}}
			if len(perTarget) < 2 {
				inconcl = append(inconcl, "fewer than two targets loaded")
			}
			if len(inconcl) > 0 {
				return findings, fmt.Errorf("%d inconclusive items, first: %s", len(inconcl), inconcl[0])
			}
			return findings, nil
		},
		Bounds:     map[string]interface{}{"targets": "quick: 14 representative GOOS/GOARCH pairs; thorough: all pairs of 'go tool dist list' that type-check offline", "program_obligations": "only on targets whose GOARCH has a syscall table (amd64, 386, arm, arm64 under any GOOS): elsewhere no policy can be compiled through the public API, which the no-table harness decides", "per_target": "15 constants; 3 concrete shapes x 4 tables x 2 byte orders as program signatures (incl. 260 names, i.e. a bridged program); about 13 small symbolic shapes and 6 condition instances; stub and no-table harnesses"},
		Outside:    []string{"targets that do not type-check offline (listed in the evidence)", "cgo variants", "native execution on foreign targets: findings on other targets are engine results that cannot be replayed on this host"},
		Assumptions: []string{"UAPI constants from the host's linux/seccomp.h, linux/prctl.h, asm-generic/errno*.h; MIPS errno numbers (ENOSYS = 89) from the kernel's arch/mips errno.h", "int/uint/uintptr width from the target (32 bits on 386, arm, mips, mipsle)"},
		Trusted:    []string{"go/packages + go/types evaluation of constants under a build context", "gosym engine on each target's SSA", "z3/cvc5"},
	})
}

func firstLine(s string) string {
	if i := strings.Index(s, "\n"); i >= 0 {
		s = s[:i]
	}
	return truncate(s, 200)
}

func truncate(s string, n int) string {
	if len(s) > n {
		return s[:n] + "..."
	}
	return s
}
