package checks

import (
	"fmt"

	"verif/engine/run"
)

var archTables = []string{"x86_64", "i386", "arm", "aarch64", "x32"}

// every name known to the package (keys of arches) plus some that are not
var archSpellings = []string{"arm", "ppc", "ppc64", "ppc64le", "s390", "s390x", "mips", "mipsle", "mips64", "i386", "386", "x32", "x86_64", "amd64", "aarch64", "arm64",
	"mips64n32", "mips64p32", "mipsel64", "mips64le", "mipsel64n32", "mips64p32le", "riscv64", "loong64", "sparc64", "wasm", "x86-64", "amd", "armeb"}

func init() {
	pkg := run.Module + "/arch"
	register(&Spec{
		ID: "C12", Dirs: []string{"arch"}, Level: "model_checking",
		Technique: "the real table initialisers (zsyscalls.go literals, invert, arches) are interpreted from SSA; over the resulting maps SMT decides, with a symbolic name (equality atom) and symbolic numbers, the mutual-inverse obligation, the no-two-numbers obligation and agreement with each vendored oracle source (one query per table/source covers every entry); GetInfo is executed symbolically on spellings constrained only through an uninterpreted lower(); audit ids are compared with linux/audit.h. The data is finite: the solver's role is to cover all entries and all spellings in one query each.",
		Rule:      "one instance = (table, obligation) or (table, oracle source) or one architecture spelling class; names/numbers/spellings symbolic.",
		Jobs: func(c *Ctx) ([]run.Job, error) {
			var jobs []run.Job
			for _, t := range archTables {
				jobs = append(jobs, run.Job{ID: "inverse/" + t, Pkg: pkg, Harness: "H_Inverse", Params: map[string]interface{}{"table": t}, CoverModels: true})
				jobs = append(jobs, run.Job{ID: "unambiguous/" + t, Pkg: pkg, Harness: "H_Unambiguous", Params: map[string]interface{}{"table": t}})
			}
			srcs, err := run.OracleSources(c.VerifDir)
			if err != nil {
				return nil, err
			}
			for _, s := range srcs {
				jobs = append(jobs, run.Job{ID: fmt.Sprintf("oracle/%s/%s", s[0], s[1]), Pkg: pkg, Harness: "H_Oracle", Params: map[string]interface{}{"table": s[0], "source": s[1]}})
			}
			jobs = append(jobs, run.Job{ID: "auditid", Pkg: pkg, Harness: "H_AuditID", Params: map[string]interface{}{}})
			for _, sp := range archSpellings {
				jobs = append(jobs, run.Job{ID: "alias/" + sp, Pkg: pkg, Harness: "H_Alias", Params: map[string]interface{}{"lower": sp}})
			}
			jobs = append(jobs, run.Job{ID: "getinfo", Pkg: pkg, Harness: "H_GetInfo", Params: map[string]interface{}{}, Weight: 10})
			// byte-vector strings: every name of 1..12 ASCII characters (decides lookups that order or search)
			for n := 1; n <= 12; n++ {
				jobs = append(jobs, run.Job{ID: fmt.Sprintf("getinfo-bytes/len%d", n), Pkg: pkg, Harness: "H_GetInfoBytes", Params: map[string]interface{}{"len": n}})
			}
			return jobs, nil
		},
		NeedCovers: []string{"cover.inverse.hit", "cover.inverse.miss", "cover.two_entries", "cover.oracle.common", "cover.auditid", "cover.alias", "cover.getinfo.ok", "cover.getinfo.err", "cover.getinfo.unknown", "cover.getinfo_bytes.ok", "cover.getinfo_bytes.err"},
		Bounds:     map[string]interface{}{"tables": "all five, every entry (about 2000 name/number pairs)", "oracles": "Go syscall package, golang.org/x/sys/unix v0.48.0, host UAPI headers (unistd_32/64/x32.h, asm-generic/unistd.h)", "spellings": "all strings, through lower(): every key of the package's architecture map plus unknown names; any letter case; additionally every string of 1..12 seven-bit ASCII characters as a byte vector (for lookups that order strings or search a sorted list)"},
		Outside:    []string{"syscalls that no vendored oracle lists (newer than the sources)", "names the table has but an oracle lacks (only agreement on common names is decided)", "the generator arch/mk_syscalls_linux.go (build-ignored, needs the kernel tree)"},
		Assumptions: []string{"strings are compared only by ==, map lookup and ToLower (equality-atom encoding is exact for these)", "lower() is an uninterpreted function with host-supplied values on every concrete string met, idempotence, and 'a caseless string is its own only variant'", "GetInfo(\"\") (GOARCH default) is covered per build target in C19"},
		Trusted:    []string{"vendored oracle data under /verif/oracle (provenance recorded in the files)", "gosym engine, equality-atom string encoding; models replayed natively", "z3/cvc5"},
	})
}
