package checks

import (
	"fmt"

	"verif/engine/run"
)

func init() {
	pkg := run.Module + "/cmd/seccomp-profiler"
	register(&Spec{
		ID: "C17", Dirs: []string{"cmd/seccomp-profiler"}, Level: "model_checking",
		Technique: "symbolic execution of the real doObjdump twice over a model file system: file contents are SMT strings built from concatenation, prefix and length-class constraints; the first run may crash at any stub call (forked crash point: every file open for writing keeps a symbolic-length prefix of what was written, buffered data included) or its disassembler may fail after printing a prefix; the second run is uninterrupted. z3 decides that whenever the second run returns a path, the content there equals hash + newline + the complete disassembly - for the same binary and for a different one",
		Rule:      "one instance = (same or different binary in run 2, disassembler of run 1 fails or not, run 1 may crash or not); hash, disassembly text, crash prefix symbolic; one path per crash point and failure combination.",
		Jobs: func(c *Ctx) ([]run.Job, error) {
			var jobs []run.Job
			for same := 1; same >= 0; same-- {
				for fails := 0; fails <= 1; fails++ {
					for crash := 0; crash <= 1; crash++ {
						if c.Tier != "thorough" && same == 0 && !(fails == 1 && crash == 0) {
							continue // the different-binary instances are slow (minutes); quick keeps one
						}
						jobs = append(jobs, run.Job{ID: fmt.Sprintf("cache/samehash%d/firstfails%d/crash%d", same, fails, crash), Pkg: pkg, Harness: "H_Objdump",
							Params: map[string]interface{}{"samehash": same, "firstfails": fails, "crash": crash}, Weight: crash*10 + fails, CoverModels: crash == 0 && fails == 0})
					}
				}
			}
			// failing writes (disk full, quota) in run 1
			jobs = append(jobs, run.Job{ID: "cache/samehash1/firstfails0/crash0/wfail1", Pkg: pkg, Harness: "H_Objdump",
				Params: map[string]interface{}{"samehash": 1, "firstfails": 0, "crash": 0, "wfail": 1}, Weight: 5})
			if c.Tier == "thorough" {
				jobs = append(jobs, run.Job{ID: "cache/samehash1/firstfails0/crash1/wfail1", Pkg: pkg, Harness: "H_Objdump",
					Params: map[string]interface{}{"samehash": 1, "firstfails": 0, "crash": 1, "wfail": 1}, Weight: 20})
			}
			// an empty key (hashBinary after a failed read of the binary) in one of the runs
			for _, e := range []int{1, 2} {
				for same := 0; same <= 1; same++ {
					if c.Tier != "thorough" && same == 0 {
						continue
					}
					jobs = append(jobs, run.Job{ID: fmt.Sprintf("cache/samehash%d/firstfails0/crash1/emptyhash%d", same, e), Pkg: pkg, Harness: "H_Objdump",
						Params: map[string]interface{}{"samehash": same, "firstfails": 0, "crash": 1, "emptyhash": e}, Weight: 10})
				}
			}
			// the lemma under "the exact binary": hashBinary returns an error, the digest of the whole binary, or nothing that can pass for a cache key
			jobs = append(jobs, run.Job{ID: "hash", Pkg: pkg, Harness: "H_Hash", Params: map[string]interface{}{}})
			return jobs, nil
		},
		NeedCovers: []string{"cover.crashed", "cover.run1_ok", "cover.run1_failed", "cover.run2_ok", "cover.cache_used", "cover.hash_ok", "cover.hash_read_failed", "cover.hash_open_failed"},
		Bounds:     map[string]interface{}{"instances": "quick: same binary x {disassembler ok/fails} x {crash/no crash} + different binary after a failed disassembler; thorough: all eight", "write_failures": "one instance (thorough: two) in which Flush of run 1 may take only a prefix of the buffered data and fail, and Close may fail", "history": "two runs; at most one crash, in the first run, at any of the stub calls (create/createtemp, writestring, objdump, flush, close, sync, rename)", "hash_lemma": "hashBinary over a model binary whose open or read may fail after any number of bytes: without an error it returns the digest of the whole binary or a value that is not 64 characters long; the two-run instances cover 'any 64 hex digits' and the empty key in either run", "contents": "hash: any 64 hex digits; disassembly: any text; crash prefix: any prefix (symbolic length)"},
		Outside:    []string{"real file-system semantics beyond 'a process crash leaves a prefix of what was written; rename is atomic' (no block reordering, no power loss after rename without fsync)", "concurrent profiler runs on the same cache", "cachedDumpFile (stubbed: a fixed path) and SHA-256 itself (a model hash whose digest distinguishes nothing / a prefix / the whole binary)", "more than two runs"},
		Assumptions: []string{"os.Open/Create/CreateTemp/Rename/Remove, File.Read/Write/Close/Sync/Name, bufio.Writer, exec.Cmd.Run are a model (harness/cmd/seccomp-profiler/zz_verif_h_cache.go): Create/CreateTemp/Rename may fail; Read returns min(len(buf), size) bytes", "the disassembler's output is a function of the binary (one symbolic text per hash)"},
		Trusted:    []string{"model file system and crash model (~200 lines of harness)", "gosym engine string layer (str.++, str.prefixof, str.substr, length classes as regular languages)", "z3 4.8.12 and z3 5.1.0 (first definite answer; no independent cross-check for string queries)", "native replay against main.go with doObjdump's selectors rewritten to the same stubs"},
	})
}
