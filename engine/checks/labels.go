package checks

import (
	"fmt"
	"math/rand"
	"strconv"

	"verif/engine/run"
)

// LabelProg is one member of family LP (DESIGN.md C06).
type LabelProg struct {
	K     int
	Runs  []int    // K+1 run lengths
	T, F  []string // per jump (index 1..K) branch targets
	Cond  []int
	Mode  int
}

func (p LabelProg) Params() map[string]interface{} {
	m := map[string]interface{}{"K": p.K, "mode": p.Mode}
	for i, r := range p.Runs {
		m["run"+strconv.Itoa(i)] = r
	}
	for k := 1; k <= p.K; k++ {
		ks := strconv.Itoa(k)
		m["j"+ks+".t"] = p.T[k]
		m["j"+ks+".f"] = p.F[k]
		m["j"+ks+".cond"] = p.Cond[k]
	}
	return m
}

func (p LabelProg) String() string {
	s := fmt.Sprintf("K%d m%d r%v", p.K, p.Mode, p.Runs)
	for k := 1; k <= p.K; k++ {
		s += fmt.Sprintf(" J%d[c%d %s/%s]", k, p.Cond[k], p.T[k], p.F[k])
	}
	return s
}

// candidates returns the distinct branch targets of jump k as names, "next"
// first.
func labelCandidates(K int, runs []int, k int) []string {
	pos := runs[0]
	jpos := make([]int, K+1)
	rstart := make([]int, K+1)
	for j := 1; j <= K; j++ {
		jpos[j] = pos
		pos++
		rstart[j] = pos
		pos += runs[j]
	}
	ret1, ret2 := pos, pos+1
	seen := map[int]bool{}
	var out []string
	add := func(at int, name string) {
		if !seen[at] {
			seen[at] = true
			out = append(out, name)
		}
	}
	add(jpos[k]+1, "next")
	for m := k + 1; m <= K; m++ {
		add(jpos[m], "J"+strconv.Itoa(m))
		if runs[m] > 0 {
			add(rstart[m], "R"+strconv.Itoa(m))
		}
	}
	add(ret1, "ret1")
	add(ret2, "ret2")
	return out
}

// enumLabelProgs calls f for every program of the family with K jumps.
func enumLabelProgs(K int, dShort, dLong []int, conds int, f func(p LabelProg)) {
	D := append(append([]int(nil), dShort...), dLong...)
	isLong := map[int]bool{}
	for _, d := range dLong {
		isLong[d] = true
	}
	runs := make([]int, K+1)
	var recRuns func(i int)
	var recJumps func(k int, p *LabelProg)
	recJumps = func(k int, p *LabelProg) {
		if k > K {
			for mode := 0; mode < 2; mode++ {
				q := *p
				q.Mode = mode
				q.Runs = append([]int(nil), p.Runs...)
				q.T = append([]string(nil), p.T...)
				q.F = append([]string(nil), p.F...)
				q.Cond = append([]int(nil), p.Cond...)
				f(q)
			}
			return
		}
		cands := labelCandidates(K, p.Runs, k)
		for ti, t := range cands {
			for fi, fl := range cands {
				if ti == 0 && fi == 0 {
					continue // both "next": rejected as a useless jump
				}
				p.T[k], p.F[k] = t, fl
				p.Cond[k] = (ti*7 + fi*3 + k) % conds
				recJumps(k+1, p)
			}
		}
	}
	recRuns = func(i int) {
		if i > K {
			long := false
			for _, r := range runs[1:] {
				if isLong[r] {
					long = true
				}
			}
			if !long {
				return
			}
			p := &LabelProg{K: K, Runs: runs, T: make([]string, K+1), F: make([]string, K+1), Cond: make([]int, K+1)}
			recJumps(1, p)
			return
		}
		if i == 0 {
			for _, r := range []int{0, 1} {
				runs[0] = r
				recRuns(1)
			}
			return
		}
		for _, d := range D {
			runs[i] = d
			recRuns(i + 1)
		}
	}
	recRuns(0)
}

// randomLabelProg draws one program with K jumps.
func randomLabelProg(rng *rand.Rand, K int, dShort, dLong []int, conds int) LabelProg {
	for {
		p := LabelProg{K: K, Runs: make([]int, K+1), T: make([]string, K+1), F: make([]string, K+1), Cond: make([]int, K+1), Mode: rng.Intn(2)}
		p.Runs[0] = rng.Intn(2)
		long := false
		for i := 1; i <= K; i++ {
			if rng.Intn(2) == 0 {
				p.Runs[i] = dLong[rng.Intn(len(dLong))]
				long = true
			} else {
				p.Runs[i] = dShort[rng.Intn(len(dShort))]
			}
		}
		if !long {
			continue
		}
		total := 0
		for _, r := range p.Runs {
			total += r
		}
		if total > 1400 {
			continue
		}
		for k := 1; k <= K; k++ {
			c := labelCandidates(K, p.Runs, k)
			for {
				ti, fi := rng.Intn(len(c)), rng.Intn(len(c))
				if ti == 0 && fi == 0 {
					continue
				}
				p.T[k], p.F[k] = c[ti], c[fi]
				break
			}
			p.Cond[k] = rng.Intn(conds)
		}
		return p
	}
}

func labelJob(p LabelProg, id string) run.Job {
	return run.Job{ID: id + ":" + p.String(), Pkg: run.Module, Harness: "H_Label", Params: p.Params()}
}

func init() {
	register(&Spec{
		ID: "C06", Dirs: []string{"root"}, Level: "translation_validation",
		Technique: "symbolic execution of the real label/jump builder and assembler on label programs with long distances; per program one equivalence query assembled-list == label-level program over all inputs and jump operands (z3/cvc5), plus the policy-level programs above 255 instructions",
		Rule:      "one instance = one label program r0 J1 r1 .. JK rK ret ret built through the public builder API (run lengths, branch targets, label sharing concrete; inputs and jump operands symbolic), or one large policy shape.",
		Jobs: func(c *Ctx) ([]run.Job, error) {
			dShort := []int{0, 1, 2, 3}
			dLong := []int{254, 255, 256}
			rng := rand.New(rand.NewSource(c.Seed))
			var jobs []run.Job
			if c.Tier == "thorough" {
				dLong = []int{250, 251, 252, 253, 254, 255, 256, 257, 258}
			}
			n := 0
			enumLabelProgs(1, dShort, dLong, 4, func(p LabelProg) {
				jobs = append(jobs, labelJob(p, fmt.Sprintf("LP1/%d", n)))
				n++
			})
			if c.Tier == "thorough" {
				// all of K = 2 with the quick distances, a stride of the wide ones
				m := 0
				enumLabelProgs(2, dShort, []int{254, 255, 256}, 4, func(p LabelProg) {
					jobs = append(jobs, labelJob(p, fmt.Sprintf("LP2/%d", m)))
					m++
				})
				m = 0
				enumLabelProgs(2, dShort, dLong, 4, func(p LabelProg) {
					if m%9 == int(c.Seed%9) {
						jobs = append(jobs, labelJob(p, fmt.Sprintf("LP2w/%d", m)))
					}
					m++
				})
				for i := 0; i < 4000; i++ {
					K := 3 + i%2
					jobs = append(jobs, labelJob(randomLabelProg(rng, K, dShort, append(dLong, 505, 510, 511, 512, 515), 8), fmt.Sprintf("LP%dr/%d", K, i)))
				}
			} else {
				// fixed stride of K = 2 plus a seed-selected slice, and sampled K = 3
				m := 0
				enumLabelProgs(2, dShort, dLong, 4, func(p LabelProg) {
					if m%73 == 0 || m%31 == int(c.Seed%31) {
						jobs = append(jobs, labelJob(p, fmt.Sprintf("LP2/%d", m)))
					}
					m++
				})
				for i := 0; i < 200; i++ {
					jobs = append(jobs, labelJob(randomLabelProg(rng, 3, dShort, append(dLong, 511), 8), fmt.Sprintf("LP3r/%d", i)))
				}
			}
			// crafted family: two far jumps to ONE non-return label (or to one return) that are more than 255 apart
			// from each other, so that each needs its own bridge, and a third far jump whose bridge is inserted
			// between them and the target (a seeded change stretched only the nearest bridge in front of an insertion)
			ci := 0
			for _, r1 := range []int{256, 300} {
				for _, r3 := range []int{256, 300} {
					for side := 0; side < 4; side++ {
						for _, tgt := range []string{"R3", "ret1"} {
							for _, j3 := range []string{"ret1", "ret2", "ret2/F"} {
								p := LabelProg{K: 3, Runs: []int{1, r1, 300, r3}, T: []string{"", "next", "next", "next"}, F: []string{"", "next", "next", "next"}, Cond: []int{0, ci % 8, (ci + 3) % 8, (ci + 5) % 8}, Mode: ci % 2}
								if side&1 == 0 {
									p.T[1] = tgt
								} else {
									p.F[1] = tgt
								}
								if side&2 == 0 {
									p.T[2] = tgt
								} else {
									p.F[2] = tgt
								}
								if j3 == "ret2/F" {
									p.F[3] = "ret2"
								} else {
									p.T[3] = j3
								}
								jobs = append(jobs, labelJob(p, fmt.Sprintf("LP3c/%d", ci)))
								ci++
							}
						}
					}
				}
			}
			// symbolic distances (C06-sym): all one-jump programs; two-jump programs in thorough
			k1 := []string{"next", "load", "ret1", "ret2"}
			for _, t := range k1 {
				for _, f := range k1 {
					if t == "next" && f == "next" {
						continue
					}
					modes := []int{0}
					if t == f && t != "load" {
						modes = []int{0, 1}
					}
					for _, m := range modes {
						jobs = append(jobs, run.Job{ID: fmt.Sprintf("LPsym1/m%d/%s/%s", m, t, f), Pkg: run.Module, Harness: "H_LabelSym",
							Params: map[string]interface{}{"K": 1, "mode": m, "j1.t": t, "j1.f": f}})
					}
				}
			}
			if c.Tier == "thorough" {
				j1 := []string{"next", "load", "J2", "ret1", "ret2"}
				type combo struct{ a, b, c, d string }
				var all []combo
				for _, a := range j1 {
					for _, b := range j1 {
						if a == "next" && b == "next" {
							continue
						}
						for _, c2 := range k1 {
							for _, d := range k1 {
								if c2 == "next" && d == "next" {
									continue
								}
								all = append(all, combo{a, b, c2, d})
							}
						}
					}
				}
				pick := map[int]bool{}
				for _, i := range []int{3, 17, 44, 61, 89, 120, 151, 199, 230, 262, 301, 340} {
					pick[i%len(all)] = true
				}
				for len(pick) < 48 {
					pick[rng.Intn(len(all))] = true
				}
				for i := range all {
					if !pick[i] {
						continue
					}
					cb := all[i]
					jobs = append(jobs, run.Job{ID: fmt.Sprintf("LPsym2/%d/m%d/%s/%s/%s/%s", i, i%2, cb.a, cb.b, cb.c, cb.d), Pkg: run.Module, Harness: "H_LabelSym", Weight: 5000,
						Params: map[string]interface{}{"K": 2, "mode": i % 2, "j1.t": cb.a, "j1.f": cb.b, "j2.t": cb.c, "j2.f": cb.d}})
				}
			}
			// policy level: programs above 255 instructions
			layouts := []condLayout{{64, 1}, {70, 1}, {22, 3}}
			if c.Tier == "thorough" {
				layouts = []condLayout{{64, 1}, {70, 1}, {22, 3}, {11, 6}, {130, 1}}
			}
			lj, err := largeCondJobs(c, "C03", "x86_64", layouts, 0)
			if err != nil {
				return nil, err
			}
			nj, err := largeNameJobs(c, "C01", []string{"x86_64"}, []int{255, 256, 300})
			if err != nil {
				return nil, err
			}
			return append(append(jobs, lj...), nj...), nil
		},
		Owns: func(tag string) bool {
			p := tagProp(tag)
			return p == "C06" || tag == "C01.decision" || tag == "C03.decision"
		},
		CoverEvery: []string{"assembled"},
		NeedCovers: []string{"cover.bridged", "cover.ret1", "cover.ret2"},
		Bounds: map[string]interface{}{"K": "quick: all programs with 1 jump, a fixed stride plus a seed-selected slice of the 2-jump programs, 200 sampled 3-jump programs, 96 crafted 3-jump programs (two far jumps more than 255 apart sharing one target, a third far jump inserting between them and it); thorough: all programs with <=2 jumps for distances {254,255,256}, a seed-selected ninth of those for distances 250..258, 4000 sampled programs with 3 and 4 jumps (also runs of 505..515 so that a bridge needs a bridge)",
			"runs": "r0 in {0,1}; other runs from {0,1,2,3} or the long set, at least one long", "targets": "next instruction, a later jump, the start of a later non-empty run, either return; per-branch labels or labels shared by target", "values": "all 16 input words, all jump operands; conditions from the eight JumpTest kinds",
			"policies": "long conditional lists and name lists above 255 instructions (decision obligation of C01/C03)",
			"symbolic_distances": "H_LabelSym: the assembler runs on a constructed pre-state whose instruction list has SYMBOLIC length n <= 2^20 and whose jump and label indices are symbolic (abstract slice: only jumps, bridges and returns are known positions). All 17 one-jump programs (every target kind, shared and separate labels) in both tiers - i.e. ALL distances for one jump; 48 of the 720 two-jump programs (12 fixed + seeded) in thorough. Obligation: every resolved skip leads, directly or through inserted long jumps, to the instruction the label marked or to an inserted copy of the return it marked; no fall-through into an inserted instruction; length grows by the number of inserted instructions; Assemble terminates"},
		Outside:     []string{"more than 4 jumps in a label program (concrete distances) / more than 2 (symbolic distances)", "backward jumps and unplaced labels (excluded by the statement)", "for programs with 3 and 4 jumps: distances other than the listed run lengths", "two-jump programs with symbolic distances outside the 48 sampled target combinations", "programs longer than 2^20 instructions in the symbolic-distance harness"},
		Assumptions: []string{"inputs are 16 unconstrained 32-bit words", "jump operands unconstrained"},
		Trusted:     append([]string{"harness/root/zz_verif_h_label.go: abstract label machine (vAbsRun), ~40 lines"}, policyTrusted...),
	})
}
