package checks

import (
	"fmt"

	"verif/engine/run"
)

// rejectJobs injects every defect kind at every position of the base shapes.
func rejectJobs(c *Ctx, W int) ([]run.Job, error) {
	tab, err := c.ArchTable("X86_64")
	if err != nil {
		return nil, err
	}
	names := smallNames(tab)
	ns := sortedNamesByNumber(tab)
	fresh := ns[7]
	shapes := EnumPolicyShapes(W, []string{"Equal", "GreaterThan"}, true)
	var jobs []run.Job
	add := func(si int, s PolicyShape, defect string, dg, di, dk, dv int) {
		p := s.Params("x86_64", 0, names, true)
		p["props"] = "C07"
		p["defect"] = defect
		p["dg"], p["di"], p["dk"], p["dv"] = dg, di, dk, dv
		p["freshname"] = fresh
		jobs = append(jobs, run.Job{ID: fmt.Sprintf("reject/%d:%s/%s@g%d.i%d.k%d.v%d", si, s.String(), defect, dg, di, dk, dv), Pkg: run.Module, Harness: "H_Reject", Params: p})
	}
	for si, s := range shapes {
		add(si, s, "default", 0, 0, 0, 0)
		add(si, s, "nogroups", 0, 0, 0, 0)
		add(si, s, "nogroups", 0, 0, 0, 1)
		for gi, g := range s.Groups {
			// unknown name: replacing each unconditional name / conditional entry name, and appended
			for i := 0; i <= g.u; i++ {
				add(si, s, "unkname", gi, i, 0, 0)
			}
			for i := 0; i <= len(g.ents); i++ {
				add(si, s, "unkname", gi, i, 0, 1)
			}
			// duplicate name
			for i := 0; i < g.u; i++ {
				add(si, s, "dupname", gi, i, 0, 0)
				add(si, s, "dupname", gi, i, 0, 1)
			}
			if g.u == 0 {
				add(si, s, "dupname", gi, 0, 0, 0)
			}
			// conditional + unconditional
			for i := range g.ents {
				add(si, s, "condboth", gi, i, 0, 0)
			}
			for i := 0; i < g.u; i++ {
				add(si, s, "condboth", gi, i, 0, 1)
			}
			// a conditional entry without conditions (existing entry emptied: nil / empty; a fresh one appended)
			for i := range g.ents {
				add(si, s, "noconds", gi, i, 0, 0)
				add(si, s, "noconds", gi, i, 0, 1)
			}
			add(si, s, "noconds", gi, 0, 0, 2)
			// argument index and operation of each condition
			for i, e := range g.ents {
				for k := range e.ops {
					add(si, s, "badarg", gi, i, k, 0)
					add(si, s, "badop", gi, i, k, 0)
					add(si, s, "badop", gi, i, k, 1)
					add(si, s, "badop", gi, i, k, 2)
				}
			}
		}
	}
	return jobs, nil
}

func init() {
	register(&Spec{
		ID: "C07", Dirs: []string{"root"}, Level: "model_checking",
		Technique: "symbolic execution of the real compiler (Validate, toSyscallsWithConditions, Assemble) on policy shapes with one injected defect per instance; defect payloads are symbolic (action word assumed not a kernel action, name an equality-atom string assumed not a table key, argument index assumed > 5 over all 2^32-6 values, operation a symbolic string assumed none of the eight); every path must return err != nil and no program, no panic path may be feasible (z3/cvc5). Valid shapes must be accepted on every path.",
		Rule:      "one instance = (base policy shape, defect kind, position, variant) or a valid shape; payload and all other values symbolic.",
		Jobs: func(c *Ctx) ([]run.Job, error) {
			W, WA := 5, 6
			if c.Tier == "thorough" {
				W, WA = 6, 8
			}
			jobs, err := rejectJobs(c, W)
			if err != nil {
				return nil, err
			}
			acc, err := smallJobs(c, policyFamily{prop: "C07"}, WA, smallOps(c.Tier))
			if err != nil {
				return nil, err
			}
			jobs = append(jobs, acc...)
			lj, err := largeNameJobs(c, "C07", []string{"x86_64"}, []int{255, 256})
			if err != nil {
				return nil, err
			}
			cj, err := largeCondJobs(c, "C07", "x86_64", []condLayout{{64, 1}, {22, 3}}, 0)
			if err != nil {
				return nil, err
			}
			return append(append(jobs, lj...), cj...), nil
		},
		NeedCovers: []string{"cover.returned", "cover.rejected", "assembled"},
		Bounds:     map[string]interface{}{"base_shapes": "all valid structures of weight <=5 (quick) / <=6 (thorough), x86_64", "defects": "unknown default action; Syscalls nil / empty; unknown name (replacing or appended, conditional or not); duplicate name (appended / in front / fresh name twice); name both with and without conditions (both directions); argument index > 5; operation not implemented (symbolic string, 'equal', empty string) - each at every position; plus a conditional entry WITHOUT conditions (emptied or appended): rejected, or accepted and then honoured by the program for all events (never dropped)", "accept": "all valid structures of weight <=6 (quick) / <=8 (thorough) plus name lists of 255/256 and long conditional lists: accepted on every path", "strings": "unbounded (equality atoms)"},
		Outside:    []string{"two defects at once", "architecture without syscall tables through the GOARCH default (decided per build target in C19/C12)", "policies above 4096 instructions"},
		Assumptions: append([]string{"a defect payload satisfies exactly the statement's defect predicate (e.g. name not a key of the architecture's table)"}, policyAssumptions...),
		Trusted:    []string{"gosym engine and term simplifier; sat models replayed natively", "equality-atom encoding of strings (exact for ==, map lookup, ToLower)", "z3/cvc5, cross-checked"},
	})
}
