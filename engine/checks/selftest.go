package checks

import (
	"encoding/json"
	"flag"
	"fmt"
	"math/rand"
	"os"
	"os/exec"
	"path/filepath"
	"strings"
	"time"

	"verif/engine/run"
)

// SelftestMain: translator validation (Serval-style). Concrete inputs are
// pushed through both worlds - the symbolic engine interpreting the SSA of
// /repo + harness, and the natively compiled build - and every observation
// must agree; natively the kernel model is also compared with x/net/bpf's VM
// and with the reference decision.
func SelftestMain(args []string) int {
	fs := flag.NewFlagSet("selftest", flag.ContinueOnError)
	tier := fs.String("tier", envOr("VERIF_TIER", "quick"), "quick|thorough")
	repo := fs.String("repo", "/repo", "repository")
	verif := fs.String("verif", "/verif", "verif dir")
	workers := fs.Int("workers", 14, "parallel workers")
	kernel := fs.Bool("kernel", false, "also validate the kernel model against the running kernel (installs filters in child processes)")
	if err := fs.Parse(args); err != nil {
		return 2
	}
	seed := int64(1)
	if s := os.Getenv("VERIF_SEED"); s != "" {
		fmt.Sscanf(s, "%d", &seed)
	}
	t0 := time.Now()
	c := &Ctx{ID: "selftest", Tier: *tier, Seed: seed, RepoDir: *repo, VerifDir: *verif, Workers: *workers, tables: map[string]map[string]int{}}
	cfg := run.Config{RepoDir: c.RepoDir, VerifDir: c.VerifDir, Workers: c.Workers}
	s, err := run.NewSession(cfg, []string{"root"}, ".")
	if err != nil {
		fmt.Println("selftest: cannot load:", err)
		return 2
	}
	c.S = s
	rng := rand.New(rand.NewSource(seed))
	names := map[string][]string{}
	tabs := map[string]map[string]int{}
	for _, a := range archOrder {
		t, err := c.ArchTable(archVars[a])
		if err != nil {
			fmt.Println("selftest:", err)
			return 2
		}
		tabs[a] = t
		names[a] = sortedNamesByNumber(t)
	}
	var jobs []run.Job
	// (i) compiler output, instruction by instruction
	shapes := EnumPolicyShapes(7, []string{"Equal", "GreaterThan"}, true)
	stride := 9
	if *tier == "thorough" {
		stride = 2
	}
	for i := 0; i < len(shapes); i += stride {
		a := archOrder[i%4]
		p := shapes[i].Params(a, i%2, smallNames(tabs[a]), false)
		jobs = append(jobs, run.Job{ID: fmt.Sprintf("sig/small/%d", i), Pkg: run.Module, Harness: "H_Sig", Params: p})
	}
	sizes := []int{1, 2, 3, 10, 100, 200, 250, 251, 252, 253, 254, 255, 256, 257, 258, 300, 375}
	if *tier == "thorough" {
		sizes = nil
		for n := 1; n <= 375; n += 3 {
			sizes = append(sizes, n)
		}
	}
	for _, n := range sizes {
		p := LargeParams("x86_64", n%2, []LargeGroup{{Names: names["x86_64"][:n]}})
		jobs = append(jobs, run.Job{ID: fmt.Sprintf("sig/long-list/%d", n), Pkg: run.Module, Harness: "H_Sig", Params: p, Weight: n})
	}
	lj, _ := largeCondJobs(c, "", "x86_64", []condLayout{{64, 1}, {22, 3}, {11, 6}}, 0)
	for _, j := range lj {
		j.Harness = "H_Sig"
		j.ID = "sig/" + j.ID
		jobs = append(jobs, j)
	}
	// (ii) kernel model on concrete events
	nPol := 40
	if *tier == "thorough" {
		nPol = 200
	}
	for i := 0; i < nPol; i++ {
		sh := shapes[rng.Intn(len(shapes))]
		a := archOrder[i%4]
		sn := smallNames(tabs[a])
		for e := 0; e < 8; e++ {
			p := sh.Params(a, (i+e)%2, sn, false)
			vals := map[string]uint64{}
			nums := []uint64{uint64(tabs[a][sn[0]]), uint64(tabs[a][sn[1]]), uint64(tabs[a][sn[2]]), uint64(tabs[a][sn[3]]), 0x40000000, 0x40000001, 0xffffffff, uint64(rng.Uint32())}
			vals["ev.nr"] = nums[rng.Intn(len(nums))]
			ids := map[string]uint64{"x86_64": 0xc000003e, "i386": 0x40000003, "arm": 0x40000028, "aarch64": 0xc00000b7}
			vals["ev.arch"] = ids[a]
			if rng.Intn(6) == 0 {
				vals["ev.arch"] = uint64(rng.Uint32())
			}
			vals["ev.ip"] = rng.Uint64()
			for k := 0; k < 6; k++ {
				// operands of vPolicyFromParamsConcrete and their neighbours
				kk := uint64(rng.Intn(6) + 1)
				base := uint64(0xfedcba9876543210) ^ kk*0x9e3779b97f4a7c15
				choices := []uint64{base, base + 1, base - 1, base ^ 0xffffffff, base ^ 0xffffffff00000000, 0, ^uint64(0), rng.Uint64(), uint64(rng.Uint32())}
				vals["ev.a"+fmt.Sprint(k)] = choices[rng.Intn(len(choices))]
			}
			jobs = append(jobs, run.Job{ID: fmt.Sprintf("kmi/%d/%d", i, e), Pkg: run.Module, Harness: "H_SelfKMI", Params: p, Values: vals})
		}
	}
	// (iii) library models (sorting through the real less/Swap, call-through, sentinel errors)
	nLib := 24
	if *tier == "thorough" {
		nLib = 120
	}
	for i := 0; i < nLib; i++ {
		n := 1 + i%8
		vals := map[string]uint64{}
		for k := 0; k < n; k++ {
			vals[fmt.Sprintf("k%d", k)] = uint64(rng.Intn(256))
			if rng.Intn(3) == 0 && k > 0 {
				vals[fmt.Sprintf("k%d", k)] = vals[fmt.Sprintf("k%d", k-1)] // ties
			}
		}
		jobs = append(jobs, run.Job{ID: fmt.Sprintf("lib/%d", i), Pkg: run.Module, Harness: "H_SelfLib", Params: map[string]interface{}{"n": n}, Values: vals})
	}
	// (iv) language features and library objects a change might introduce
	for step := 0; step <= 10; step++ {
		for _, x := range []uint64{0, 7, 0xfffffffe} {
			jobs = append(jobs, run.Job{ID: fmt.Sprintf("lang/%d/%d", step, x), Pkg: run.Module, Harness: "H_SelfLang", Params: map[string]interface{}{"step": step}, Values: map[string]uint64{"x": x}})
		}
	}
	for i := range jobs {
		jobs[i].Property = "selftest"
	}
	results, _, err := s.RunJobs(jobs, nil)
	if err != nil {
		fmt.Println("selftest: engine:", err)
		return 2
	}
	dir, _ := os.MkdirTemp("", "verif-selftest-")
	defer os.RemoveAll(dir)
	rp, err := run.NewReplayer(c.RepoDir, c.VerifDir)
	if err != nil {
		fmt.Println("selftest:", err)
		return 2
	}
	defer rp.Close()
	bad := 0
	var files []string
	expect := map[string]map[string]string{}
	for _, r := range results {
		if r == nil || r.Err != "" || len(r.Inconclusive) > 0 || len(r.Violations) > 0 || len(r.Obs) != 1 {
			bad++
			if bad < 10 {
				fmt.Printf("SELFTEST-FAIL engine %s: err=%q inconclusive=%v violations=%d paths=%d\n", r.Job.ID, r.Err, r.Inconclusive, len(r.Violations), len(r.Obs))
			}
			continue
		}
		vals := map[string]string{}
		for k, v := range r.Job.Values {
			vals[k] = fmt.Sprintf("0x%x", v)
		}
		rf := run.ReplayFile{Property: "selftest", Harness: r.Job.Harness, Pkg: r.Job.Pkg, Params: r.Job.Params, Values: vals}
		b, _ := json.Marshal(rf)
		f := filepath.Join(dir, fmt.Sprintf("st%d.json", len(files)))
		os.WriteFile(f, b, 0o644)
		files = append(files, f)
		expect[f] = r.Obs[0]
		expect[f]["__id"] = r.Job.ID
	}
	nres, err := rp.Run(run.Module, files)
	if err != nil {
		fmt.Println("selftest: native:", err)
		return 2
	}
	compared := 0
	for _, f := range files {
		n := nres[f]
		id := expect[f]["__id"]
		delete(expect[f], "__id")
		if n == nil || n.Error != "" || n.Panic != "" || len(n.Fails) > 0 {
			bad++
			if bad < 10 {
				fmt.Printf("SELFTEST-FAIL native %s: %+v\n", id, n)
			}
			continue
		}
		for k, v := range expect[f] {
			compared++
			if n.Obs[k] != v {
				bad++
				if bad < 10 {
					fmt.Printf("SELFTEST-FAIL mismatch %s: %s engine=%s native=%s\n", id, k, v, n.Obs[k])
				}
			}
		}
	}
	kernelSummary := "not run (use --kernel)"
	if *kernel {
		ks, kbad := kernelValidation(c, rng, tabs["x86_64"], *tier)
		kernelSummary = ks
		bad += kbad
	}
	sum := map[string]interface{}{"kernel_validation": kernelSummary, "tier": *tier, "seed": seed, "instances": len(jobs), "observations_compared": compared, "failures": bad, "wall_s": time.Since(t0).Seconds(),
		"what": "H_Sig: every raw instruction of compiled concrete policies, engine vs native; H_SelfKMI: kernel model result on concrete events, engine vs native, and natively vs x/net/bpf's VM (big-endian layout) and vs the reference decision; H_SelfLib: the library models (sort.Slice/SliceStable/Sort/Ints through the real less and Swap, call-through of pure string/number functions, sentinel errors and the %w chain) on concrete inputs, engine vs native; H_SelfLang: generics, recover, method values, goroutines and channels under the one schedule the engine runs, sync.Pool, sync.Map, strings.Builder, bytes.Buffer, select"}
	b, _ := json.MarshalIndent(sum, "", " ")
	os.MkdirAll(filepath.Join(*verif, "selftest"), 0o755)
	os.WriteFile(filepath.Join(*verif, "selftest", "last.json"), b, 0o644)
	fmt.Printf("selftest: %d instances, %d observations compared, %d failures, %.1fs\n", len(jobs), compared, bad, time.Since(t0).Seconds())
	if bad > 0 {
		return 2
	}
	return 0
}

// kernelValidation installs policies over harmless probe syscalls in child
// processes of a natively built test binary (unmodified seccomp_linux.go) and
// compares the running kernel's answers with the kernel model and the
// reference decision.
func kernelValidation(c *Ctx, rng *rand.Rand, tab map[string]int, tier string) (string, int) {
	s, bad, _ := kernelValidationLines(c, rng, tab, tier)
	return s, bad
}

func kernelValidationLines(c *Ctx, rng *rand.Rand, tab map[string]int, tier string) (string, int, []string) {
	// syscalls the Go runtime never makes on its own (it does call getpid and gettid)
	probesNames := []string{"getppid", "getuid", "geteuid", "getgid", "getegid"}
	for _, n := range probesNames {
		if _, ok := tab[n]; !ok {
			return "probe syscall missing from the table: " + n, 1, nil
		}
	}
	shapes := EnumPolicyShapes(7, []string{"Equal", "GreaterThan"}, true)
	nCases, nProbes := 60, 12
	if tier == "thorough" {
		nCases, nProbes = 400, 24
	}
	if tier == "tsync-only" {
		nCases, nProbes = 1, 1
	}
	type probe struct {
		Name string    `json:"name"`
		X32  bool      `json:"x32"`
		Args [6]uint64 `json:"args"`
	}
	type kcase struct {
		ID     string                 `json:"id"`
		Params map[string]interface{} `json:"params"`
		Flag   uint32                 `json:"flag"`
		Kill   bool                   `json:"kill"`
		Probes []probe                `json:"probes"`
	}
	var cases []kcase
	for i := 0; i < nCases; i++ {
		sh := shapes[rng.Intn(len(shapes))]
		perm := rng.Perm(len(probesNames))
		names := []string{probesNames[perm[0]], probesNames[perm[1]], probesNames[perm[2]], probesNames[perm[3]]}
		p := sh.Params("x86_64", 0, names, false)
		// operations: mix all eight in
		k := 0
		for key := range p {
			if len(key) > 3 && key[len(key)-3:] == ".op" {
				p[key] = allOps[(i+k)%8]
				k++
			}
		}
		kc := kcase{ID: fmt.Sprintf("kernel/%d:%s", i, sh.String()), Params: p, Flag: uint32(i % 2), Kill: i%5 == 4}
		for j := 0; j < nProbes; j++ {
			pr := probe{Name: probesNames[rng.Intn(len(probesNames))], X32: rng.Intn(12) == 0}
			for a := 0; a < 6; a++ {
				kk := uint64(rng.Intn(6) + 1)
				base := uint64(0xfedcba9876543210) ^ kk*0x9e3779b97f4a7c15
				choices := []uint64{base, base + 1, base - 1, base ^ 0xffffffff, base ^ 0xffffffff00000000, 0, ^uint64(0), rng.Uint64(), uint64(rng.Uint32()), base & 0xffffffff00000000, base | 0xffffffff}
				pr.Args[a] = choices[rng.Intn(len(choices))]
			}
			kc.Probes = append(kc.Probes, pr)
		}
		cases = append(cases, kc)
	}
	dir, err := os.MkdirTemp("", "verif-kernel-")
	if err != nil {
		return err.Error(), 1, nil
	}
	defer os.RemoveAll(dir)
	b, _ := json.Marshal(cases)
	cf := filepath.Join(dir, "cases.json")
	os.WriteFile(cf, b, 0o644)
	run.NoBoundaryRewrite = true
	defer func() { run.NoBoundaryRewrite = false }()
	rp, err := run.NewReplayer(c.RepoDir, c.VerifDir)
	if err != nil {
		return err.Error(), 1, nil
	}
	defer rp.Close()
	bin, err := rp.BinFor(run.Module)
	if err != nil {
		return "cannot build: " + err.Error(), 1, nil
	}
	cmd := exec.Command(bin, "-test.run", "^TestVerifKernel$", "-test.timeout", "600s")
	cmd.Dir = dir
	cmd.Env = append(os.Environ(), "VERIF_KERNEL_CASES="+cf)
	out, _ := cmd.CombinedOutput()
	bad := 0
	summary := ""
	var tsync, fails []string
	for _, l := range strings.Split(string(out), "\n") {
		if strings.HasPrefix(l, "VERIF-KERNEL-FAIL") || strings.HasPrefix(l, "VERIF-KERNEL-ERROR") {
			bad++
			fails = append(fails, l)
			if bad < 8 {
				fmt.Println(l)
			}
		}
		if strings.HasPrefix(l, "VERIF-KERNEL-SUMMARY") {
			summary = strings.TrimPrefix(l, "VERIF-KERNEL-SUMMARY ")
		}
		if strings.HasPrefix(l, "VERIF-KERNEL-TSYNC") {
			tsync = append(tsync, strings.TrimPrefix(l, "VERIF-KERNEL-TSYNC "))
		}
		if strings.HasPrefix(l, "VERIF-KERNEL-UNAVAILABLE") {
			return "unavailable: " + l, 0, nil
		}
	}
	if summary == "" {
		return "did not run: " + lastN(string(out), 4), 1, nil
	}
	fmt.Println("selftest kernel:", summary, "tsync:", tsync)
	return summary + "; thread-sync assumption sampled (threads spinning / in nanosleep / parked / being created): " + strings.Join(tsync, "; ") + " (policies over getppid/getuid/geteuid/getgid/getegid with conditions on all six registers, really installed in child processes with NoNewPrivs, with and without TSYNC; errno / success / SIGSYS compared with KMI and refDecide)", bad, fails
}
