package checks

import (
	"fmt"

	"verif/engine/run"
)

func init() {
	register(&Spec{
		ID: "C13", Dirs: []string{"root"}, Level: "model_checking",
		Technique: "symbolic execution of the real compiler and text conversions with (a) map iteration order as an explored input (ascending vs descending order for every range over a map; term-wise equality of the two instruction lists decided by SMT), (b)+(c) a write monitor over every object reachable from the caller's policy (built with spare capacity, slices shared with a twin value) and over all package-level state: an empty write set on every path gives race freedom and independence by the DRF reduction (interleavings are reduced away, not explored), (d) FilterFlag/Action text equal under both iteration orders for a symbolic value. Native replay runs the two compilations concurrently under the race detector.",
		Rule:      "one instance = one policy shape (determinism / writes) or the text and lookup functions on symbolic values.",
		Jobs: func(c *Ctx) ([]run.Job, error) {
			tab, err := c.ArchTable("X86_64")
			if err != nil {
				return nil, err
			}
			names := smallNames(tab)
			W := 5
			if c.Tier == "thorough" {
				W = 7
			}
			var jobs []run.Job
			shapes := EnumPolicyShapes(W, []string{"Equal", "GreaterThan"}, true)
			for i, s := range shapes {
				p := s.Params("x86_64", i%2, names, true)
				jobs = append(jobs, run.Job{ID: fmt.Sprintf("det/%d:%s", i, s.String()), Pkg: run.Module, Harness: "H_Det", Params: p})
				if i%2 == 0 || c.Tier == "thorough" {
					q := s.Params("x86_64", 0, names, true)
					jobs = append(jobs, run.Job{ID: fmt.Sprintf("writes/%d:%s", i, s.String()), Pkg: run.Module, Harness: "H_Writes", Params: q, Race: true})
				}
			}
			// lists longer than the enumeration reaches, all values symbolic: a change that normalises a list in
			// place (de-duplication, sorting) writes only when the list has a particular content
			for i, ops := range [][]string{{"Equal", "Equal", "GreaterThan"}, {"GreaterThan", "Equal", "Equal"}, {"Equal", "Equal", "Equal", "Equal"}} {
				s := PolicyShape{Groups: []groupShape{{u: 1, ents: []entShape{{ops: ops}}}}, Names: []int{0, 1}}
				jobs = append(jobs, run.Job{ID: fmt.Sprintf("det/list%d:%s", i, s.String()), Pkg: run.Module, Harness: "H_Det", Params: s.Params("x86_64", i%2, names, true)})
				jobs = append(jobs, run.Job{ID: fmt.Sprintf("writes/list%d:%s", i, s.String()), Pkg: run.Module, Harness: "H_Writes", Params: s.Params("x86_64", 0, names, true), Race: true})
			}
			// histories: the same policy compiled again after ANOTHER compilation (rejected half-way, or valid and
			// different): pools, caches and scratch state must not carry anything over
			for i, s := range shapes {
				if len(s.Groups[0].ents) > 0 || s.Groups[0].u == 0 || (i%5 != 0 && c.Tier != "thorough") {
					continue
				}
				for other := 1; other <= 3; other++ {
					p := s.Params("x86_64", 0, names, true)
					p["other"] = other
					jobs = append(jobs, run.Job{ID: fmt.Sprintf("after/%d/other%d:%s", i, other, s.String()), Pkg: run.Module, Harness: "H_DetAfter", Params: p})
				}
			}
			// large shapes: bridging (the labels map is ranged over in updateIndices)
			lj, err := largeCondJobs(c, "C13", "x86_64", []condLayout{{64, 1}, {22, 3}}, 0)
			if err != nil {
				return nil, err
			}
			nj, err := largeNameJobs(c, "C13", []string{"x86_64"}, []int{256, 300})
			if err != nil {
				return nil, err
			}
			for _, j := range append(lj, nj...) {
				d := j
				d.Harness = "H_Det"
				d.ID = "det/" + j.ID
				jobs = append(jobs, d)
				w := j
				w.Harness = "H_Writes"
				w.Race = true
				w.ID = "writes/" + j.ID
				jobs = append(jobs, w)
			}
			jobs = append(jobs, run.Job{ID: "text", Pkg: run.Module, Harness: "H_Text", Params: map[string]interface{}{}, CoverModels: true})
			jobs = append(jobs, run.Job{ID: "text-after", Pkg: run.Module, Harness: "H_TextAfter", Params: map[string]interface{}{}})
			jobs = append(jobs, run.Job{ID: "pure", Pkg: run.Module, Harness: "H_Pure", Params: map[string]interface{}{}, Race: true})
			return jobs, nil
		},
		NeedCovers: []string{"assembled", "compiled", "ran", "cover.text", "cover.text.both_flags", "assembled_after", "cover.after_rejected", "cover.after_other", "cover.text_history"},
		Bounds:     map[string]interface{}{"shapes": "all valid structures of weight <=5 (quick) / <=7 (thorough), plus long conditional lists and name lists that need bridge instructions", "histories": "for every fifth (thorough: every) shape whose first group has names: reference compilation, then another compilation (unknown name appended / duplicate name / the groups reversed with swapped actions), then the policy again - same program, and the reference still intact", "map_orders": "ascending and descending key order for every range over a map (maps of <=3 entries could be explored in all orders; the two extremes are used)", "values": "all operands, indices, actions; all 2^32 flag and action words for the text forms; all strings for the lookups"},
		Outside:    []string{"compiling the same *Policy value from two goroutines (writes its arch field; excluded by the statement's 'distinct policy values')", "the Go runtime and memory model themselves", "interleavings are not enumerated: disjoint write sets + unwritten shared reads => data-race free and independent (DRF reduction)", "cross-process determinism beyond map order: no other source of nondeterminism (time, randomness, environment, pointer values) is reached - any call to one would stop the run as unmodelled"},
		Assumptions: []string{"two computations whose write sets are private and whose shared reads are never written neither race nor influence each other (Go memory model)"},
		Trusted:    []string{"the engine's write monitor (every Store, MapUpdate, append and copy that hits an object reachable from the shared roots or from package state)", "gosym engine; replay natively with -race", "z3/cvc5"},
	})
}
