package checks

import (
	"fmt"

	"verif/engine/run"
)

var allOps = []string{"Equal", "NotEqual", "GreaterThan", "LessThan", "GreaterOrEqual", "LessOrEqual", "BitsSet", "BitsNotSet"}

func init() {
	register(&Spec{
		ID: "C02", Dirs: []string{"root"}, Level: "translation_validation",
		Technique: "symbolic execution of the real compiler on a single-condition entry; for each operation, place and byte order one query pair (matches <=> 64-bit relation) over all 2^64 operands, all 2^64 argument values and a symbolic argument index 0..5, decided by z3/cvc5; plus the lemma rel64 == relSplit used by the other policy checks",
		Rule:      "one instance = (operation, place of the condition in its list, byte order, architecture); operand, argument index, event and actions symbolic.",
		Jobs: func(c *Ctx) ([]run.Job, error) {
			var jobs []run.Job
			for _, op := range allOps {
				jobs = append(jobs, run.Job{ID: "lemma/" + op, Pkg: run.Module, Harness: "H_Lemma", Params: map[string]interface{}{"op": op}, CoverModels: true})
			}
			archs := []string{"x86_64"}
			if c.Tier == "thorough" {
				archs = archOrder
			}
			for _, a := range archs {
				tab, err := c.ArchTable(archVars[a])
				if err != nil {
					return nil, err
				}
				names := smallNames(tab)
				for _, op := range allOps {
					for place := 0; place < 3; place++ {
						for bo := 0; bo < 2; bo++ {
							jobs = append(jobs, run.Job{ID: fmt.Sprintf("cond/%s/%s/place%d/bo%d", a, op, place, bo), Pkg: run.Module, Harness: "H_Cond",
								Params: map[string]interface{}{"op": op, "place": place, "bo": bo, "arch": a, "name": names[(place+bo)%len(names)]}, CoverModels: true})
						}
					}
				}
			}
			return jobs, nil
		},
		NeedCovers: []string{"cover.match", "cover.nomatch", "cover.match.samehi", "cover.nomatch.samehi", "cover.lemma.true", "cover.lemma.false"},
		Bounds:     map[string]interface{}{"values": "none: all operands, all argument values, all argument indices 0..5, all events", "structure": "one condition, or two conditions with the companion (an Equal on another symbolic argument) assumed satisfied; 8 operations x 3 places x 2 byte orders (x 4 architectures in thorough)"},
		Outside:    []string{"a byte order that is neither little- nor big-endian", "lists longer than two conditions (C03's family)"},
		Assumptions: []string{"argument index <= 5", "default action is a kernel action; enc(action) != enc(default) so that a match is observable", "event architecture and syscall number match the entry (the premise of the statement)"},
		Trusted:    policyTrusted,
	})
}
