package checks

import (
	"fmt"

	"verif/engine/run"
)

func init() {
	pkg := run.Module + "/cmd/seccomp-profiler/disasm"
	register(&Spec{
		ID: "C16", Dirs: []string{"cmd/seccomp-profiler/disasm"}, Level: "model_checking",
		Technique: "symbolic execution of the real parser.Parse / parseX86_64 over L symbolic lines: each line is an SMT string constrained only through memberships in regular languages built from the literals the current source passes to HasPrefix/Contains, slice bounds and field counts (one membership per line after union/intersection/complement normalisation, decided by z3 5.1); the scanner is a model that stops after any number of lines with or without an error; findSyscallNum is summarised (arbitrary number or error) and what it is GIVEN is checked. Every path must return without panic, report read failures as errors, hand findSyscallNum only lines of the current function and all of them since the previous site (also when hundreds or thousands of concrete filler lines lie between the symbolic ones), report only table entries, and keep earlier results when lines are appended.",
		Rule:      "one instance = (parser, number of lines L, extra lines M, lines delivered before the scanner stops, scanner error or not); line contents symbolic; one path per combination of line classes.",
		Jobs: func(c *Ctx) ([]run.Job, error) {
			var jobs []run.Job
			add := func(arch string, L, M, yield, fails int) {
				classes := []int{0}
				if yield+M >= 2 {
					classes = []int{1, 2, 3, 4} // two or more delivered lines: split on the class of the first line (parallelism)
				}
				for _, cl := range classes {
					jobs = append(jobs, run.Job{ID: fmt.Sprintf("parse/%s/L%d/M%d/yield%d/scanfails%d/class%d", arch, L, M, yield, fails, cl), Pkg: pkg, Harness: "H_Parse",
						Params: map[string]interface{}{"arch": arch, "L": L, "M": M, "yield": yield, "scanfails": fails, "class1": cl}, Weight: (yield + M) * 10, CoverModels: yield <= 1, MaxPaths: 30000})
				}
			}
			L := 2
			if c.Tier == "thorough" {
				L = 3
			}
			for _, arch := range []string{"x86_64", "i386"} {
				la := L
				if arch == "i386" {
					la = L - 1 // two raw-syscall spellings double the classes per line
				}
				for y := 0; y <= la; y++ {
					add(arch, la, 0, y, 0)
					add(arch, la, 0, y, 1)
					if y <= 1 || c.Tier == "thorough" {
						add(arch, la, 0, y, 2) // the scanner stops at a line above its limit (bufio.ErrTooLong)
					}
				}
			}
			if c.Tier != "thorough" {
				// two i386 lines once (a seeded change needed the line before an i386 raw syscall instruction)
				add("i386", 2, 0, 2, 0)
			}
			// long listings: symbolic lines separated by concrete filler lines (sizes around powers of two:
			// windows, buffers and counters of a rewritten parser live there)
			pad := func(layout string, n, nsym int) {
				for _, cl := range []int{1, 2, 3, 4} {
					jobs = append(jobs, run.Job{ID: fmt.Sprintf("parse/x86_64/layout=%s/class%d", layout, cl), Pkg: pkg, Harness: "H_Parse",
						Params: map[string]interface{}{"arch": "x86_64", "L": 0, "M": 0, "yield": n, "scanfails": 0, "class1": cl, "layout": layout}, Weight: nsym*10 + n/50, MaxPaths: 30000})
				}
			}
			pad("s,f600,s", 602, 2)
			if c.Tier == "thorough" {
				for _, n := range []int{127, 255, 256, 257, 511, 512, 513, 1023, 1024, 1025} {
					pad(fmt.Sprintf("s,f%d,s", n), n+2, 2)
				}
				pad("f300,s,f300,s", 602, 2)
			}
			// monotonicity
			add("x86_64", 1, 1, 1, 0)
			add("i386", 1, 1, 1, 0)
			if c.Tier == "thorough" {
				add("x86_64", 2, 1, 2, 0)
				add("x86_64", 1, 2, 1, 0)
			}
			return jobs, nil
		},
		NeedCovers: []string{"cover.returned", "cover.scan_failed", "cover.find_called", "cover.reported", "cover.monotone"},
		Bounds:     map[string]interface{}{"lines": "L <= 2 (quick) / 3 (thorough) symbolic lines, every prefix of them delivered; contents unbounded strings over printable ASCII + space + tab", "long_listings": "2 symbolic lines with 600 concrete filler instructions between them (quick); 127..1025 fillers at 10 sizes around powers of two and fillers before the first symbolic line (thorough)", "monotonicity": "1 line + 1 appended (quick); also 2+1 and 1+2 (thorough)", "parsers": "x86_64 (L lines) and i386 (L-1 lines)"},
		Outside:    []string{"the leftmost-first semantics of the two regular expressions and number parsing inside findSyscallNum (summarised: arbitrary number or error)", "non-ASCII characters and white space other than space and tab", "listings longer than the bound (the loop body is the same for every line; no induction is claimed)", "the ARM parser (none exists)", "decided by z3 5.1.0 alone: cvc5 1.0.3 can hang on these queries and z3 4.8.12 times out, so there is no cross-check for string obligations"},
		Assumptions: []string{"os.Open succeeds; bufio.Scanner is a model that delivers the first k lines and then stops, with Err() nil, an arbitrary error, or bufio.ErrTooLong (Scanner.Buffer moves the limit, it cannot remove it)", "strings.Fields: the number of fields (0, 1, 2, >= 3) is decided by membership; the fields themselves are opaque strings nobody inspects", "a function starts at a line with prefix TEXT (objdump format)", "findSyscallNum returns the same answer for the same line position in both runs of the monotonicity obligation"},
		Trusted:    []string{"regular-language encoding of HasPrefix / Contains / slice bounds / field counts (gosym/lines.go) and its normalisation (sym/regex.go)", "model scanner and findSyscallNum summary (harness, ~80 lines)", "gosym engine; models replayed natively against disasm.go with its selectors rewritten to the stubs", "z3 5.1.0 string solver"},
	})
}
