package checks

import (
	"fmt"

	"verif/engine/run"
)

func init() {
	pkg := run.Module + "/cmd/seccomp-profiler"
	register(&Spec{
		ID: "C18", Dirs: []string{"cmd/seccomp-profiler"}, Level: "model_checking",
		Technique: "symbolic execution of the real main() of the profiler (dedup map, filterBlacklist, addWhitelist, output selection) with everything up to ExtractSyscalls stubbed: discovered syscall numbers are symbolic keys of the real table, blacklist and allow-list entries are arbitrary strings (equality atoms); map updates with symbolic keys fork over equality patterns, map iteration runs in both orders; for a fresh symbolic string x SMT decides x in out <=> (found and not blacklisted) or (allowed and a table name), duplicate-freedom, table membership of every element, and that the emitted slice is the one sort.Strings was last applied to; the captured policy is {errno, [{allow, out}]}",
		Rule:      "one instance = (number of discovered syscalls k, blacklist size, allow-list size, output format, map iteration order); numbers and strings symbolic; one path per equality pattern.",
		Jobs: func(c *Ctx) ([]run.Job, error) {
			var jobs []run.Job
			add := func(k, nb, na int, format, order string) {
				jobs = append(jobs, run.Job{ID: fmt.Sprintf("prof/k%d/b%d/a%d/%s/%s", k, nb, na, format, order), Pkg: pkg, Harness: "H_ProfMain",
					Params: map[string]interface{}{"k": k, "nb": nb, "na": na, "format": format, "order": order, "arch": "x86_64"}, Weight: k*4 + nb*2 + na*3})
			}
			K, NB, NA := 2, 1, 1
			if c.Tier == "thorough" {
				K, NB, NA = 2, 2, 2
			}
			for k := 0; k <= K; k++ {
				for nb := 0; nb <= NB; nb++ {
					for na := 0; na <= NA; na++ {
						f := []string{"code", "config"}[(k+nb+na)%2]
						o := []string{"asc", "desc"}[(k+na)%2]
						add(k, nb, na, f, o)
						if c.Tier == "thorough" || (k == K && nb == NB && na == NA) {
							add(k, nb, na, []string{"code", "config"}[(k+nb+na+1)%2], []string{"asc", "desc"}[(k+na+1)%2])
						}
					}
				}
			}
			if c.Tier != "thorough" {
				// two blacklist entries / two allow-list entries (a seeded change needed two neighbours)
				add(2, 2, 0, "config", "asc")
				add(1, 0, 2, "code", "desc")
			} else {
				// three discovered syscalls with the smaller flag sets (the 3/2/2 corner ran for more than an
				// hour per instance and left queries undecided; it is outside the registered bound)
				for _, ba := range [][2]int{{0, 0}, {1, 0}, {0, 1}, {1, 1}, {2, 0}, {0, 2}} {
					add(3, ba[0], ba[1], []string{"code", "config"}[(ba[0]+ba[1])%2], []string{"asc", "desc"}[ba[0]%2])
					jobs[len(jobs)-1].Weight = 1000
				}
			}
			return jobs, nil
		},
		NeedCovers: []string{"cover.output", "cover.config", "cover.code", "cover.set.allowed", "cover.set.blacklisted"},
		Bounds:     map[string]interface{}{"sizes": "k <= 2 discovered syscalls (duplicates allowed), <= 1 blacklist and <= 1 allow-list entries, plus (k,nb,na) = (2,2,0) and (1,0,2) (quick); (thorough: all of k <= 2, nb <= 2, na <= 2 in two format/order variants, plus k = 3 with (nb,na) in {(0,0),(1,0),(0,1),(1,1),(2,0),(0,2)})", "strings": "arbitrary (equality atoms)", "table": "x86_64, all 375+ entries as data", "map_order": "ascending and descending"},
		Outside:    []string{"the syntax yaml.v2 / text/template produce, and loading the emitted YAML back (composition of C14's key agreement for default_action/syscalls/names/action with C01 on the one-group shape - argued, not executed through the YAML library)", "sort.Strings itself (summarised as an in-place permutation; equality atoms carry no order)", "a custom template file, the debug output"},
		Assumptions: []string{"ExtractSyscalls reports only table entries with their table name (C16's obligation)", "no name has two numbers (C12's obligation, used as a lemma so that duplicate-freedom queries need not re-prove it)", "blacklist and allow list are disjoint (premise of the statement)", "getBinaryArch / hashBinary / doObjdump succeed (their failure paths end in log.Fatal before anything is emitted)"},
		Trusted:    []string{"output stubs (harness/cmd/seccomp-profiler, ~60 lines)", "equality-atom strings; symbolic-key map model (fork over equality patterns)", "gosym engine; native replay against main.go with selectors rewritten", "z3/cvc5"},
	})
}
