package checks

import (
	"fmt"

	"verif/engine/run"
)

func init() {
	pkg := run.Module + "/cmd/sandbox"
	register(&Spec{
		ID: "C15", Dirs: []string{"cmd/sandbox", "root"}, Level: "model_checking",
		Technique: "symbolic execution of the real main() of cmd/sandbox with its environment stubbed (flag, the configuration library below the real parsePolicy, LoadFilter or the kernel contract stub below the real LoadFilter, exec, os.Exit); the harness binds to nothing of the command but main(): every combination of failures is a path (forked choice points, kernel answers symbolic), and on every path the obligations on the recorded event order are checked: exec only after a successful parse and a successful load, with the parsed policy, TSYNC and the flag's no_new_privs; any failure => non-zero exit and no exec",
		Rule:      "one instance = (which layer is stubbed, argv length, policy naming an unknown syscall or not); one path per combination of failures.",
		Jobs: func(c *Ctx) ([]run.Job, error) {
			var jobs []run.Job
			for layer := 1; layer <= 2; layer++ {
				for argc := 0; argc <= 3; argc++ {
					jobs = append(jobs, run.Job{ID: fmt.Sprintf("main/layer%d/argc%d", layer, argc), Pkg: pkg, Harness: "H_SandboxMain", Params: map[string]interface{}{"layer": layer, "argc": argc}})
				}
			}
			jobs = append(jobs, run.Job{ID: "main/layer2/unknown-syscall", Pkg: pkg, Harness: "H_SandboxMain", Params: map[string]interface{}{"layer": 2, "argc": 2, "badsyscall": 1}})
			return jobs, nil
		},
		NeedCovers: []string{"cover.noargs", "cover.exec", "cover.failed_before_exec", "cover.unknown_syscall"},
		Bounds:     map[string]interface{}{"failures": "file missing or malformed, unpack error, parser error with or without a returned pointer, unknown syscall name, every kernel answer to prctl/seccomp (symbolic errno and r1), exec failure", "argv": "0..3 arguments"},
		Outside:    []string{"that the filter survives execve and what the target then observes (kernel)", "the YAML parser and config library themselves (stubbed by their error/no-error contract)", "the example policy file cmd/sandbox/seccomp.yml is not parsed"},
		Assumptions: []string{"flag.*: the policy path is the default, no-new-privs is an arbitrary bool, arguments are a concrete list", "yaml.NewConfigWithFile / Config.Unpack: fail or deliver an arbitrary policy", "exec.Command / Cmd.Run: recorded, fail or succeed", "os.Exit ends the path with the recorded code", "kernel contract stub of C09 below the real LoadFilter (layer 2)"},
		Trusted:    []string{"the environment stubs (harness/cmd/sandbox, ~120 lines)", "gosym engine; replay natively against main.go with its selectors rewritten to the stubs", "z3/cvc5 (path feasibility)"},
	})
}
